"""C13 -- command-line options.  Tie A: the option tables generated from driver.run (wiring theorem).
Tie B: Model/ParseNumbers.v against util.parse_numbers on a grid of vector strings, and Model/Cli.v
composed with Model/Data.v against `verif ... --list-times/--list-locations` on generated text files
and random option subsets / orders / --config files.  Falsifier: order independence, --config
inline equivalence and the documented rejections, on the implementation."""
import contextlib
import signal
import io
import math
import os
import random
import shutil
import tempfile
from fractions import Fraction

import numpy as np

import common
from common import close
import datagen

GEN_PREFIXES = ["Gen_cli", "verif/driver.py"]
EXTRA_TARGETS = ["Model/Cli.vo"]
ASSUMPTIONS = ["vector strings use decimals with at most 3 fractional digits; exotic float() spellings ('1.', '.5', '1e3') are outside the model",
               "date ranges are modelled for positive integral steps from a valid date; a negative step is a known finding",
               "the end-to-end comparison observes the selection through --list-times / --list-locations"]


def write_text(path, spec):
    with open(path, "w") as f:
        f.write("unixtime leadtime location lat lon altitude obs fcst\n")
        for a, t in enumerate(spec["times"]):
            for b, l in enumerate(spec["leads"]):
                for s, loc in enumerate(spec["locs"]):
                    o = spec["fields"]["obs"][a][b][s] if "obs" in spec["fields"] else None
                    fc = spec["fields"]["fcst"][a][b][s]
                    f.write("%d %g %d %g %g %g %s %s\n" % (t, l, loc[0], loc[1], loc[2], loc[3],
                                                            "-999" if o is None else repr(o), "-999" if fc is None else repr(fc)))


def dedupe(spec):
    keep_t = list(dict.fromkeys(spec["times"]))
    keep_l = list(dict.fromkeys(spec["leads"]))
    ids = []
    keep_s = []
    for i, s in enumerate(spec["locs"]):
        if s[0] not in ids:
            ids.append(s[0])
            keep_s.append(i)
    it = [spec["times"].index(t) for t in keep_t]
    il = [spec["leads"].index(l) for l in keep_l]
    out = {"times": keep_t, "leads": keep_l, "locs": [spec["locs"][i] for i in keep_s], "fields": {}}
    for f, c in spec["fields"].items():
        if f in ("obs", "fcst"):
            out["fields"][f] = [[[c[a][b][s] for s in keep_s] for b in il] for a in it]
    if "fcst" not in out["fields"]:
        out["fields"]["fcst"] = [[[1.0 for _ in keep_s] for _ in il] for _ in it]
    if "obs" not in out["fields"]:
        out["fields"]["obs"] = [[[1.0 for _ in keep_s] for _ in il] for _ in it]
    return out


def vec(vals, rng, ints=False):
    """render a list of numbers with the documented vector syntax (sometimes as a range)"""
    def one(v):
        return "%d" % v if ints or float(v).is_integer() else ("%g" % v)
    if len(vals) >= 2 and rng.random() < 0.3:
        vs = sorted(set(vals))
        step = vs[1] - vs[0] if len(vs) >= 2 else 0
        if step > 0 and all(abs((b - a) - step) < 1e-9 for a, b in zip(vs, vs[1:])) and Fraction(str(step)).denominator <= 1000:
            return "%s:%s:%s" % (one(vs[0]), one(step), one(vs[-1])) if step != 1 or rng.random() < 0.5 else "%s:%s" % (one(vs[0]), one(vs[-1]))
    return ",".join(one(v) for v in vals)


def option_groups(cfg, rng, climname):
    import verif.util
    g = []
    if "times" in cfg and cfg["times"]:
        g.append(["-t", ",".join("%d" % t for t in cfg["times"])])
    if "dates" in cfg:
        g.append(["-d", ",".join("%d" % verif.util.unixtime_to_date(t) for t in cfg["dates"])])
    if "tods" in cfg:
        g.append(["-tod", ",".join("%g" % h for h in cfg["tods"])])
    if "leads" in cfg and cfg["leads"]:
        g.append(["-o", vec(cfg["leads"], rng)])
    if "locs" in cfg and cfg["locs"]:
        g.append(["-l", vec(cfg["locs"], rng, True)])
    if "locs_x" in cfg and cfg["locs_x"]:
        g.append(["-lx", vec(cfg["locs_x"], rng, True)])
    for k, fl_ in (("lat", "-latrange"), ("lon", "-lonrange"), ("elev", "-elevrange"), ("obs_range", "-obsrange")):
        if k in cfg:
            g.append([fl_, "%g,%g" % tuple(cfg[k])])
    if "clim" in cfg:
        g.append(["-C" if cfg.get("clim_divide") else "-c", climname])
    return g


def run_cli(argv):
    """in-process command line; returns ('ok', stdout) | ('error', message) | ('exception', type)"""
    import verif.driver
    buf = io.StringIO()
    try:
        with contextlib.redirect_stdout(buf):
            verif.driver.run(argv)
        return ("ok", buf.getvalue())
    except datagen.ImplExit as e:
        return ("error", str(e))
    except SystemExit as e:
        return ("error", "exit %r" % (e.code,)) if e.code not in (0, None) else ("ok", buf.getvalue())
    except Exception as e:
        return ("exception", "%s: %s" % (type(e).__name__, e))


def parse_list(out):
    """times from --list-times, ids from --list-locations"""
    times, ids = [], []
    lines = out.split("\n")
    mode = None
    for ln in lines:
        ln = ln.strip()
        if not ln or ln.startswith("\x1b"):
            continue
        if ln.startswith("id"):
            mode = "loc"
            continue
        parts = ln.split()
        if mode == "loc" and len(parts) == 4:
            ids.append(int(parts[0]))
        elif len(parts) == 1 and parts[0].lstrip("-").isdigit():
            times.append(int(parts[0]))
    return times, ids


class _Hang(BaseException):
    pass


def _on_alarm(*a):
    raise _Hang()


signal.signal(signal.SIGALRM, _on_alarm)


def cstr(s):
    return '"%s"' % s.replace('"', '""')


def explore(out, tier, seed, facts, replay=None):
    with common.quiet():
        return _explore(out, tier, seed, facts, replay)


def _explore(out, tier, seed, facts, replay):
    import verif.util
    datagen.patch_error()
    rng = random.Random(seed + 1313)
    # ---- Tie B.1: vector syntax ------------------------------------------------------------------
    strings = ["3", "3,4,5", "3:5", "3:2:12", "3,4:6,2:5:9,6", "0.1:0.1:0.9", "5:-1:1", "5:1", "1:0:3", "1::3", "", ",", "1,,2", "a", "1:2:3:4",
               "-3:-1", "-1.5:0.5:1", "0:0.001:0.01", "10:-2.5:0", "1:5:3", "2:2", "-999", "0.25,0.5", "1 2", "1;2", "1:1:1", "0:24:240",
               "1..2", "1-2", "-", ".", "1.2.3", "--1", "1:-", "1:.:3", "3,-", "1:2-3"]
    vals = [0, 1, 2, 3, 10, 0.5, 0.25, 1.5, -1, -2.5, 0.1, 0.001, 24]
    for _ in range(150 if tier == "quick" else 3000):
        a, b = rng.choice(vals), rng.choice(vals)
        st = rng.choice([1, 2, 0.5, 0.25, 0.1, -1, -0.5, 3, 0.001, 7])
        strings.append("%g:%g:%g" % (a, st, b) if rng.random() < 0.7 else "%g:%g" % (a, b))
    singles = list(strings[37:])
    for _ in range(60 if tier == "quick" else 1000):       # comma combinations of ranges and single values
        strings.append(",".join(rng.choice(singles + ["7", "0.5", "-3"]) for _ in range(rng.randint(2, 3))))
    dstrings = ["20120101:0.5:20120103", "20120101:1.5:20120104", "20120101", "20120227:20120302", "20121230:20130102", "20120101:7:20120201", "20120227:2:20120302", "20120228,20120301",
                "20000228:20000301", "19991231:20000101", "21000227:21000302", "20120105:-1:20120101", "20120230:20120302", "20120101:20111231"]
    for _ in range(40 if tier == "quick" else 400):
        y, m = rng.choice([1999, 2000, 2012, 2023, 2100]), rng.randint(1, 12)
        d0 = y * 10000 + m * 100 + rng.choice([1, 15, 27, 28])
        nxt = (y + (m == 12)) * 10000 + (m % 12 + 1) * 100 + rng.choice([1, 2, 5])
        dstrings.append("%d:%d:%d" % (d0, rng.choice([1, 1, 2, 7, 30]), nxt) if rng.random() < 0.6 else "%d:%d" % (d0, nxt))
    dsingles = list(dstrings[14:])
    for _ in range(20 if tier == "quick" else 300):
        dstrings.append(",".join(rng.choice(dsingles) for _ in range(2)))
    exprs, expected, descr = [], [], []
    for is_date, lst in ((False, strings), (True, dstrings)):
        for s in lst:
            try:
                signal.alarm(10)
                r = [float(x) for x in verif.util.parse_numbers(s, is_date)]
            except _Hang:
                r = "exception:never-returns"
            except datagen.ImplExit:
                r = "error"
            except Exception as e:
                r = "exception:%s" % type(e).__name__
            finally:
                signal.alarm(0)
            exprs.append("match parse_numbers %s %s with OK l => map f_of_Q l | Error e => [(-7)%%float; f_of_nat e] end" % ("true" if is_date else "false", cstr(s)))
            expected.append(r)
            descr.append({"string": s, "is_date": is_date})
    disagreements = []
    try:
        got = common.coq_eval_float_lists("From Coq Require Import String ZArith QArith.\nFrom VF Require Import Base.Num Model.Data Model.DataQ Model.ParseNumbers.\nOpen Scope string_scope.",
                                          exprs, "c13p_%d" % seed, chunk=100, float_scope=False)
        for g, e, d in zip(got, expected, descr):
            model_err = len(g) == 2 and g[0] == -7
            if isinstance(e, str) and e.startswith("exception"):
                key = "date-range-negative-step" if (d["is_date"] and ":-" in d["string"]) else "parse_numbers-exception:%s" % d["string"]
                out.violation(key, "parse_numbers(%r, is_date=%r) raised %s instead of an error message" % (d["string"], d["is_date"], e), d)
                continue
            if model_err and g[1] == 5:
                continue          # outside the model (exotic spelling, non-positive date step, invalid start date)
            if isinstance(e, str):
                if not model_err:
                    disagreements.append({"case": d, "model": g, "implementation": e})
            elif model_err or not common.close_lists(g, e, 1e-7):
                disagreements.append({"case": d, "model": g, "implementation": e})
    except RuntimeError as ex:
        out.broken_obligation("tie:Model/ParseNumbers.v", str(ex)[-1500:])
    if disagreements:
        out.broken_obligation("tie:parse_numbers", "%d of %d strings differ; first %r" % (len(disagreements), len(exprs), disagreements[0]))
        # the property itself: a:s:b = a, a+s, ... including b when hit
        for dg in disagreements[:5]:
            out.violation("vector-syntax", "parse_numbers(%r) = %r, documented syntax gives %r" % (dg["case"]["string"], dg["implementation"], dg["model"]), dg["case"])
    # date ranges with a NEGATIVE step count down from the LATER date in steps of |step| calendar days while the date is not before
    # the earlier one (documented in the code; outside the Coq model): independent calendar arithmetic
    import datetime
    def _d(n_):
        return datetime.date(n_ // 10000, n_ // 100 % 100, n_ % 100)
    for _ in range(30 if tier == "quick" else 300):
        d0_ = _d(rng.choice([20120225, 20120101, 20111228, 20000227, 20121229])) + datetime.timedelta(days=rng.randint(0, 5))
        d1_ = d0_ + datetime.timedelta(days=rng.randint(0, 12))
        st_ = -rng.choice([1, 2, 3, 4, 7])
        a_, b_ = (d1_, d0_) if rng.random() < 0.7 else (d0_, d1_)
        sstr = "%s:%d:%s" % (a_.strftime("%Y%m%d"), st_, b_.strftime("%Y%m%d"))
        want_, cur_ = [], d1_
        while cur_ >= d0_:
            want_.append(int(cur_.strftime("%Y%m%d")))
            cur_ += datetime.timedelta(days=st_)
        try:
            signal.alarm(10)
            got_ = [int(x_) for x_ in verif.util.parse_numbers(sstr, True)]
        except (datagen.ImplExit, _Hang, Exception) as e_:
            got_ = "%s" % type(e_).__name__
        finally:
            signal.alarm(0)
        if got_ != want_:
            out.violation("date-range-negative-step", "parse_numbers(%r, is_date=True) = %r; counting down from the later date in steps of %d days gives %r" % (sstr, got_, -st_, want_), {"string": sstr})
            break
    # ---- Tie B.2 + falsifier: command lines over generated text files --------------------------------
    tmp = tempfile.mkdtemp(prefix="vfc13_")
    nf = 0
    distinct = set()
    samples = []
    cexprs, cexp, cdescr = [], [], []
    try:
        ncl = 40 if tier == "quick" else 400
        for ci in range(ncl):
            ds = datagen.gen_dataset(rng, options=True)
            ds["inputs"] = [dedupe(s) for s in ds["inputs"]]
            if "clim" in ds["cfg"]:
                ds["cfg"]["clim"] = dedupe(ds["cfg"]["clim"])
            ds["cfg"].pop("tods", None) if rng.random() < 0.5 else None
            names = []
            for i, s in enumerate(ds["inputs"]):
                fn = os.path.join(tmp, "c%d_in%d.txt" % (ci, i))
                write_text(fn, s)
                names.append(fn)
            climname = os.path.join(tmp, "c%d_clim.txt" % ci)
            if "clim" in ds["cfg"]:
                write_text(climname, ds["cfg"]["clim"])
            groups = option_groups(ds["cfg"], rng, climname)
            # a malformed stream now and then
            bad = None
            r = rng.random()
            if r < 0.05:
                bad = ["-nosuchflag", "1"]
            elif r < 0.08:
                bad = ["-latrange", "1,2,3"]
            elif r < 0.11:
                bad = ["-o", "1::3"]
            elif r < 0.13:
                bad = ["-T", "0"]
            if bad:
                groups = [g for g in groups if g[0] != bad[0]]        # an option is given once: the last occurrence would win
                groups.append(bad)
            listing = ["--list-times", "--list-locations"]
            items = [[n] for n in names] + groups + [[x] for x in listing]
            order = list(range(len(items)))
            fileorder = [i for i in order if i < len(names)]
            rng.shuffle(order)
            # files keep their relative order
            it = iter(fileorder)
            order = [next(it) if i < len(names) else i for i in order]
            argv1 = ["verif"] + [tok for i in range(len(items)) for tok in items[i]]
            argv2 = ["verif"] + [tok for i in order for tok in items[i]]
            r1, r2 = run_cli(argv1), run_cli(argv2)
            nf += 2
            distinct.add(tuple(sorted(g[0] for g in groups)))
            if r1[0] == "exception" or r2[0] == "exception":
                out.violation("cli-exception", "command line ended in an unhandled exception: %r" % ((r1 if r1[0] == "exception" else r2)[1],),
                              {"argv": argv1 if r1[0] == "exception" else argv2})
                continue
            if r1[0] != r2[0] or (r1[0] == "ok" and parse_list(r1[1]) != parse_list(r2[1])):
                out.violation("option-order", "the same options in a different order give a different result", {"argv1": argv1, "argv2": argv2})
            # --config: options moved into a file act as if given inline
            if groups and not bad:
                k = rng.randrange(len(groups))
                cf = os.path.join(tmp, "c%d.cfg" % ci)
                open(cf, "w").write(" ".join(groups[k]) + "\n")
                argv3 = ["verif"] + names + [t for j, g in enumerate(groups) if j != k for t in g] + ["--config", cf] + listing
                r3 = run_cli(argv3)
                nf += 1
                if r3[0] != r1[0] or (r1[0] == "ok" and parse_list(r1[1]) != parse_list(r3[1])):
                    out.violation("config-inline", "reading %r through --config differs from giving it inline" % (groups[k],), {"argv_inline": argv1, "argv_config": argv3})
            # several --config files, also directly after one another, in both orders
            if len(groups) >= 2 and not bad:
                k1, k2 = rng.sample(range(len(groups)), 2)
                cfa, cfb = os.path.join(tmp, "c%d_a.cfg" % ci), os.path.join(tmp, "c%d_b.cfg" % ci)
                open(cfa, "w").write(" ".join(groups[k1]) + "\n")
                open(cfb, "w").write(" ".join(groups[k2]) + "\n")
                rest = [t for j, g in enumerate(groups) if j not in (k1, k2) for t in g]
                for cfgs in (["--config", cfa, "--config", cfb], ["--config", cfb, "--config", cfa]):
                    argv4 = ["verif"] + names + rest + cfgs + listing
                    r4 = run_cli(argv4)
                    nf += 1
                    if r4[0] != r1[0] or (r1[0] == "ok" and parse_list(r1[1]) != parse_list(r4[1])):
                        out.violation("config-twice", "two --config files given one after the other (%r and %r) differ from the same options given inline"
                                      % (groups[k1], groups[k2]), {"argv_inline": argv1, "argv_config": argv4,
                                                                   "config_files": {os.path.basename(cfa): " ".join(groups[k1]), os.path.basename(cfb): " ".join(groups[k2])}})
                        break
            if bad and r1[0] != "error":
                out.violation("not-rejected:%s" % bad[0], "%r was not rejected with an error exit (%s)" % (bad, r1[0]), {"argv": argv1})
            # model prediction of the verified dimensions
            files_db = "(fun f => %s None)" % "".join("if String.eqb f %s then Some %s else " % (cstr(n), datagen.coq_input(s))
                                                      for n, s in list(zip(names, ds["inputs"])) + ([(climname, ds["cfg"]["clim"])] if "clim" in ds["cfg"] else []))
            cexprs.append("match cli_dims (fun _ => None) %s %s with OK (t, l, s) => (enc_zlist t ++ enc_zlist s)%%list | Error e => [(-7)%%float; f_of_nat e] end"
                          % (files_db, datagen.coq_list(cstr(a) for a in argv2)))
            cexp.append(r2)
            cdescr.append({"argv": argv2})
            if len(samples) < 3:
                samples.append({"argv": [os.path.basename(a) if a.startswith(tmp) else a for a in argv2]})
        # ---- --list-dates: YYYYMMDD HH:MM:SS of every verified time (also times that are not on the hour) --------
        import datetime
        fn = os.path.join(tmp, "dates.txt")
        base = [1325376000, 1330559999, 951782400 + 6 * 3600 + 30 * 60, 1356998399, 1325376000 + 23 * 3600 + 59 * 60 + 59, 1341100800 + 45 * 60 + 7]
        tl = sorted(set(rng.sample(base, 4) + [rng.randrange(946684800, 1893456000) for _ in range(4)]))
        with open(fn, "w") as f:
            f.write("unixtime leadtime location obs fcst\n")
            for t in tl:
                f.write("%d 0 1 1 2\n" % t)
        r = run_cli(["verif", fn, "--list-dates"])
        nf += 1
        lines = [l.strip() for l in (r[1] if r[0] == "ok" else "").split("\n") if l.strip() and not l.startswith("\x1b")]
        want = [datetime.datetime.utcfromtimestamp(t).strftime("%Y%m%d %H:%M:%S") for t in tl]
        if r[0] != "ok" or lines != want:
            out.violation("list-dates", "--list-dates on times %r prints %r, expected %r" % (tl, lines if r[0] == "ok" else r, want), {"times": tl})
        cexprs.append("flat_map (fun t => let '(dt, hh, mm, ss) := date_clock t in [f_of_Z dt; f_of_Z hh; f_of_Z mm; f_of_Z ss]) [%s]%%Z" % "; ".join(str(t) for t in tl))
        cexp.append(("dates", None))
        cdescr.append({"argv": ["verif", "dates.txt", "--list-dates"], "dates_expected": [[int(w[:8]), int(w[9:11]), int(w[12:14]), int(w[15:17])] for w in lines] if r[0] == "ok" else None})
        cdis = []
        try:
            got = common.coq_eval_float_lists("From Coq Require Import String ZArith QArith.\nFrom VF Require Import Base.Num Model.Data Model.Cal Model.DataQ Model.ParseNumbers Model.Cli.\nOpen Scope Z_scope.\nOpen Scope string_scope.",
                                              cexprs, "c13c_%d" % seed, chunk=10, float_scope=False, timeout=900)
            for g, e, d in zip(got, cexp, cdescr):
                model_err = len(g) == 2 and g[0] == -7
                if e[0] == "dates":
                    want_d = d["dates_expected"]
                    got_d = [[int(x) for x in g[i:i + 4]] for i in range(0, len(g), 4)]
                    if want_d is not None and got_d != want_d:
                        cdis.append({"case": d, "model": got_d, "implementation": want_d})
                    continue
                if e[0] == "exception":
                    continue
                if e[0] == "error" or model_err:
                    if (e[0] == "error") != model_err:
                        cdis.append({"case": d, "model": g, "implementation": e})
                    continue
                times, ids = parse_list(e[1])
                nt = int(g[0])
                mt = [int(x) for x in g[1:1 + nt]]
                ms = [int(x) for x in g[2 + nt:]]
                if mt != times or ms != ids:
                    cdis.append({"case": d, "model": [mt, ms], "implementation": [times, ids]})
        except RuntimeError as ex:
            out.broken_obligation("tie:Model/Cli.v", str(ex)[-1500:])
        if cdis:
            out.broken_obligation("tie:Model/Cli.v<->verif.driver", "%d of %d command lines differ; first %r" % (len(cdis), len(cexprs), cdis[0]))
            d0 = cdis[0]
            if not isinstance(d0["implementation"], tuple):
                out.violation("selection-differs-from-documentation", "verif %s verifies %r; the documented meaning of the options gives %r"
                              % (" ".join(os.path.basename(a) for a in d0["case"]["argv"][1:]), d0["implementation"], d0["model"]), d0["case"])
        # ---- -agg: every documented aggregator name (and numbers 0..1) has its effect, for standard metrics and for the
        #      special outputs that aggregate (obsfcst), wherever the option stands; unknown names are rejected for all of them
        from p_c05 import oagg
        import verif.aggregator
        fa = os.path.join(tmp, "agg.txt")
        nt_a = rng.randint(3, 6)
        rows_a = {}
        with open(fa, "w") as f_:
            f_.write("unixtime leadtime location lat lon altitude obs fcst\n")
            for t_ in range(nt_a):
                for l_ in (0, 6, 12):
                    o_, c_ = rng.randint(-8, 8) / 2.0, rng.randint(-8, 8) / 2.0
                    rows_a.setdefault(float(l_), []).append((o_, c_))
                    f_.write("%d %d 1 0 0 0 %g %g\n" % (86400 * t_, l_, o_, c_))
        doc_names = sorted(set(a_.name() for a_ in verif.aggregator.get_all()) - {"quantile"})
        for an in doc_names + ["0", "0.0", "1", "0.25", "0.9"]:
            key_a = an if an in doc_names else repr(float(an))
            for mname, cols in (("mae", lambda o_, c_: [[abs(x - y) for x, y in zip(o_, c_)]]), ("obs", lambda o_, c_: [o_]),
                                ("fcst", lambda o_, c_: [c_]), ("obsfcst", lambda o_, c_: [o_, c_])):
                fo = os.path.join(tmp, "agg_out.csv")
                argv = ["verif", fa] + (["-agg", an, "-m", mname] if rng.random() < 0.5 else ["-m", mname, "-agg", an]) + ["-x", "leadtime", "-type", "csv", "-f", fo]
                if os.path.exists(fo):
                    os.remove(fo)
                r = run_cli(argv)
                nf += 1
                if r[0] != "ok" or not os.path.exists(fo):
                    out.violation("agg-refused:%s" % an, "verif %s: the documented aggregator %r is not accepted (%s %s)" % (" ".join(argv[2:-1]), an, r[0], r[1][:150]),
                                  {"argv": argv, "rows(leadtime -> [(obs, fcst)])": {str(k): v for k, v in rows_a.items()}})
                    continue
                try:
                    table = [[float(x) for x in ln.split(",")] for ln in open(fo).read().strip().split("\n")[1:]]
                except ValueError:
                    table = None
                want = []
                for lt_ in sorted(rows_a):
                    o_ = [x for x, _ in rows_a[lt_]]
                    c_ = [y for _, y in rows_a[lt_]]
                    want.append([lt_] + [oagg(key_a if an in doc_names else an, col) for col in cols(o_, c_)])
                same = table is not None and len(table) == len(want) and all(len(g_) == len(w_) and all(abs(x - y) <= 1e-5 * max(1.0, abs(y)) for x, y in zip(g_, w_)) for g_, w_ in zip(table, want))      # the csv writer keeps 6 significant digits
                if not same:
                    out.violation("agg-effect:%s" % mname, "verif %s writes %r; the %s aggregate of each lead time's values is %r" % (" ".join(argv[2:-1]), table, an, want),
                                  {"argv": argv, "rows(leadtime -> [(obs, fcst)])": {str(k): v for k, v in rows_a.items()}})
                    break
        # ---- -obs / -fcst: any field of the file can take the role of the observation / forecast, independently of each other
        ff_ = os.path.join(tmp, "fld.txt")
        rows_f = [(l_, rng.randint(-8, 8) / 2.0, rng.randint(-8, 8) / 2.0, rng.randint(-8, 8) / 2.0, rng.randint(0, 8) / 8.0, rng.randint(10, 30) / 2.0, rng.randint(-30, -10) / 2.0)
                  for l_ in (0, 6) for _ in range(3)]
        with open(ff_, "w") as f_:
            f_.write("unixtime leadtime location obs fcst tmin p-5 Tmax tmax\n")      # column names are case sensitive
            for n_, (l_, o_, c_, t_, p_, u_, v_) in enumerate(rows_f):
                f_.write("%d %d 1 %g %g %g %g %g %g\n" % (86400 * (n_ % 3), l_, o_, c_, t_, p_, u_, v_))
        col_ = {"obs": 1, "fcst": 2, "tmin": 3, "threshold:-5": 4, "Tmax": 5, "tmax": 6}
        for ofld, ffld in (("fcst", "tmin"), ("fcst", "obs"), ("tmin", "fcst"), (None, "tmin"), ("tmin", None), (None, "threshold:-5"),
                           (None, "Tmax"), (None, "tmax"), ("Tmax", "tmax"), ("threshold:-5", None), ("threshold:-5", "tmin")):
            fo = os.path.join(tmp, "fld_out.csv")
            if os.path.exists(fo):
                os.remove(fo)
            argv = ["verif", ff_, "-m", "mae"] + (["-obs", ofld] if ofld else []) + (["-fcst", ffld] if ffld else []) + ["-x", "leadtime", "-type", "csv", "-f", fo]
            r = run_cli(argv)
            nf += 1
            oi, fi = col_[ofld or "obs"], col_[ffld or "fcst"]
            want = [sum(abs(r_[oi] - r_[fi]) for r_ in rows_f if r_[0] == l_) / 3.0 for l_ in (0, 6)]
            got = None
            if r[0] == "ok" and os.path.exists(fo):
                try:
                    got = [float(ln.split(",")[1]) for ln in open(fo).read().strip().split("\n")[1:]]
                except ValueError:
                    got = None
            if got is None or len(got) != 2 or any(abs(g_ - w_) > 1e-5 * max(1, abs(w_)) for g_, w_ in zip(got, want)):
                out.violation("obs-fcst-fields:%s" % ("both" if ofld and ffld else "one"), "verif %s gives %r (%s %s); the mean absolute difference of the columns %r and %r per lead time is %r"
                              % (" ".join(argv[2:-2]), got, r[0], r[1][:120] if r[0] != "ok" else "", ofld or "obs", ffld or "fcst", want), {"argv": argv, "file": open(ff_).read()})
        # ---- without -r, a metric that needs thresholds gets 20 of them, evenly spaced from the smallest to the largest value found among
        #      the observations and among the forecasts (each on its own: an unpaired extreme value still counts)
        fdt = os.path.join(tmp, "defthr.txt")
        with open(fdt, "w") as f_:
            f_.write("unixtime leadtime location obs fcst\n")
            vals_dt = [(rng.randint(0, 20) / 2.0, rng.randint(0, 20) / 2.0) for _ in range(6)]
            for n_, (o_, c_) in enumerate(vals_dt):
                f_.write("%d 0 1 %g %g\n" % (86400 * n_, o_, c_))
            f_.write("%d 0 1 -999 30\n%d 0 1 -7 -999\n" % (86400 * 6, 86400 * 7))        # the extremes are unpaired
        for mname in ("ets", "hit"):
            fo = os.path.join(tmp, "defthr_out.csv")
            if os.path.exists(fo):
                os.remove(fo)
            argv = ["verif", fdt, "-m", mname, "-x", "threshold", "-type", "csv", "-f", fo]
            r = run_cli(argv)
            nf += 1
            got_t = None
            if r[0] == "ok" and os.path.exists(fo):
                try:
                    got_t = [float(ln.split(",")[0]) for ln in open(fo).read().strip().split("\n")[1:]]
                except ValueError:
                    got_t = None
            want_t = [float(x_) for x_ in np.linspace(-7.0, 30.0, 20)]
            if got_t is None or len(got_t) != 20 or any(abs(a_ - b_) > 1e-4 * max(1.0, abs(b_)) for a_, b_ in zip(got_t, want_t)):
                out.violation("default-thresholds", "verif defthr.txt -m %s -x threshold (no -r): the rows are the thresholds %r; 20 values from the smallest (-7, an observation without forecast) to the largest (30, a forecast without observation) are %r"
                              % (mname, got_t, [round(x_, 4) for x_ in want_t]), {"argv": argv, "file": open(fdt).read()})
        # ---- -x decides the rows, -Tx only the dimension of the pre-aggregation window; neither takes the other's role
        for xopt, txopt, cfg_tx in (("leadtime", "time", False), ("time", "leadtime", False), (None, "time", False), ("leadtime", "time", True), ("location", "time", False)):
            fo = os.path.join(tmp, "x_out.csv")
            if os.path.exists(fo):
                os.remove(fo)
            cfgx = os.path.join(tmp, "cfg_tx.txt")
            open(cfgx, "w").write("-Tx %s\n" % txopt)
            argv = ["verif", fa, "-m", "mae"] + (["-x", xopt] if xopt else []) + ["-T", "2"] + (["--config", cfgx] if cfg_tx else ["-Tx", txopt]) + ["-type", "csv", "-f", fo]
            r = run_cli(argv)
            nf += 1
            first = open(fo).read().split("\n")[0].split(",")[0].strip().lower() if r[0] == "ok" and os.path.exists(fo) else None
            want_first = {"leadtime": "leadtime", "time": "time", "location": "id", None: "leadtime"}[xopt]
            if first != want_first:
                out.violation("x-versus-Tx", "verif %s: the table's first column is %r (%s); -x %s asks for %r rows whatever -Tx says" % (" ".join(argv[2:-2]), first, r[0], xopt or "(default: leadtime)", want_first),
                              {"argv": argv})
        for mname in ("obsfcst", "scatter", "obs", "qq"):
            argv = ["verif", fa, "-m", mname, "-agg", "nosuchaggregator", "-f", os.path.join(tmp, "agg_out.png")]
            r = run_cli(argv)
            nf += 1
            if r[0] != "error":
                out.violation("not-rejected:-m %s -agg nosuchaggregator" % mname, "%r is not rejected with an error message and non-zero exit: %s %s" % (argv[1:], r[0], r[1][:200]), {"argv": argv})
        # ---- documented rejections --------------------------------------------------------------------
        fn = os.path.join(tmp, "rej.txt")
        write_text(fn, dedupe(datagen.gen_dataset(rng, options=False)["inputs"][0]))
        for argv in (["verif", fn, "-m", "mae", "-nosuch"], ["verif", fn, "-m", "mae", "-x"], ["verif", fn, "-m", "mae", "-x", "nosuchaxis"],
                     ["verif", fn, "-m", "mae", "-agg", "nosuchagg"], ["verif", fn, "-m", "mae", "-r", "1::2"], ["verif", fn, "-m", "mae", "-r", "a,b"],
                     ["verif", fn, "-m", "mae", "-latrange", "1"], ["verif", fn, "-m", "mae", "-lonrange", "1,2,3"], ["verif", fn, "-m", "mae", "-elevrange", "5"],
                     ["verif", fn, "-m", "mae", "-obsrange", "1,2,3"], ["verif", fn, "-m", "mae", "-T", "0"], ["verif", fn, "-m", "mae", "-T", "-3"],
                     ["verif", fn, "-m", "quantilescore", "-q", "1.5"], ["verif", fn, "-m", "quantilescore", "-q", "0.5,-0.1,0.9"],
                     ["verif", os.path.join(tmp, "doesnotexist.txt"), "-m", "mae"], ["verif", fn, "--config"], ["verif", fn, "-m", "mae", "--config", os.path.join(tmp, "nocfg")],
                     ["verif", fn, "-m", "mae", "-type", "nosuchtype"], ["verif", fn, "-m", "mae", "-agg", "1.5"],
                     ["verif", fn, "-m", "mae", "-r", "1..2"], ["verif", fn, "-m", "mae", "-l", "1-2"], ["verif", fn, "-m", "quantilescore", "-q", "1:0"],
                     ["verif", fn, "-m", "mae", "-d", "20120101:0.5:20120103"], ["verif", fn, "-m", "mae", "-agg", "nan"], ["verif", fn, "-m", "mae", "-Tagg", "nan", "-T", "2"],
                     ["verif", fn, "-m", "mae", "-T", "1.5"], ["verif", fn, "-m", "mae", "-dpi", "abc"], ["verif", fn, "-m", "mae", "-fcst", "threshold:"],
                     ["verif", fn, "-m", "mae", "-fcst", "threshold"], ["verif", fn, "", "-m", "mae"],
                     ["verif", fn, "-m", "obsfcst", "-type", "nosuchtype"], ["verif", fn, "-m", "mae", "-xlim", "5"], ["verif", fn, "-m", "mae", "-ylim", "1,2,3"],
                     ["verif", fn, "-m", "mae", "-fs", "a,b"], ["verif", fn, "-m", "mae", "-fs", "5"], ["verif", fn, "-m", "mae", "-aspect", "0"],
                     ["verif", fn, "-m", "mae", "-f", os.path.join(tmp, "no_such_directory", "out.csv")], ["verif", fn, "-m", "mae", "-f", tmp]):      # an output path that cannot be written
            signal.alarm(20)
            try:
                r = run_cli(argv + ["-type", "csv"] if "-type" not in argv else argv)
            except _Hang:
                r = ("exception", "never returns")
            finally:
                signal.alarm(0)
            nf += 1
            if r[0] != "error":
                out.violation("not-rejected:%s" % " ".join(argv[2:])[:40].replace(tmp, ""), "%r is not rejected with an error message and non-zero exit: %s %s"
                              % (argv[1:], r[0], r[1][:200]), {"argv": argv})
    finally:
        shutil.rmtree(tmp, ignore_errors=True)
    return {
        "evaluations": len(exprs) + len(cexprs) + nf,
        "distinct_nontrivial": len(distinct) + len(set(strings)) + len(set(dstrings)),
        "rule": "vector strings: fixed corner cases + grid of start:step:end over decimals with <= 3 digits and negative steps, date ranges "
                "crossing month/year/leap boundaries; command lines: random subsets of the subsetting options in two orders + via --config "
                "on generated text files, 13% malformed; distinct = distinct strings + option sets",
        "samples": samples or [descr[0]],
        "programs": len(exprs) + len(cexprs),
        "disagreements_checked": len(exprs) + len(cexprs),
        "tie_disagreements": len(disagreements),
        "falsifier_evaluations": nf,
    }
