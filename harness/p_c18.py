"""C18 -- query results are independent of query history and repeatable.
Tie B (stateful): Model/DataState.v (caches + heap of array objects with identity, all in-place
writes) against one verif.data.Data object driven through the same request history; compared are
the arrays handed out AT RETURN TIME and the SAME OBJECTS at the end of the history.
Falsifier: every response against a freshly built Data, earlier arrays and input arrays unchanged,
two runs identical."""
import copy
import itertools
import os
import math
import random

import numpy as np

import common
import datagen
import datatie

EXTRA_TARGETS = ["Model/DataStateQ.vo"]
GEN_PREFIXES = []
ASSUMPTIONS = ["a history ends at the first error exit (verif.util.error terminates the program)",
               "PIT randomisation (variables with x0/x1) is outside the model: see the known finding",
               "ensemble MEMBERS are requested as fields of their own (modelled as further per-input arrays); quantile/threshold fields derived from the ensemble are not part of the request menu"]
ALL = 99
LEVEL = "proof"


def menu(ds, sizes):
    n = len(ds["inputs"])
    k1 = 1 if n > 1 else 0
    extra = [f for f in ("pit", "other0") if all(f in i["fields"] for i in ds["inputs"] + ([ds["cfg"]["clim"]] if "clim" in ds["cfg"] else []))]
    e = extra[0] if extra else "fcst"
    m = [(["obs", "fcst"], 0, ALL, 0), (["obs"], 0, 3, 0), (["fcst"], 0, 3, 0), (["obs", "fcst"], 0, 3, 0),
         (["obs"], 0, ALL, 0), (["obs", "fcst"], k1, ALL, 0), (["obs", "fcst"], 0, 1, 0), (["obs"], k1, 2, 0),
         (["fcst", e], 0, ALL, 0), (["fcst"], k1, ALL, 0), (["obs", e], k1, 3, 0), (["fcst"], 0, 0, 0),
         (["obs"], k1, 3, 0), (["obs"], k1, ALL, 0),       # observation-only requests for two inputs with the same slice
         (["obs", "fcst"], 0, 7, 0), (["obs", "fcst"], 0, 6, 0), (["obs", "fcst"], 0, 5, 0), (["obs", "fcst"], 0, 8, 0)]
         # the first slice of several time-like axes (year, month, week, day ...): their values coincide at calendar boundaries
    if all("ens0" in i["fields"] and "ens1" in i["fields"] for i in ds["inputs"] + ([ds["cfg"]["clim"]] if "clim" in ds["cfg"] else [])):
        # ensemble members are fields of their own: two different members must never share a cache entry
        m = m[:8] + m[12:] + [(["ens0"], 0, 3, 0), (["ens1"], 0, 3, 0), (["ens1"], k1, ALL, 0), (["obs", "ens0"], 0, ALL, 0)]
    return [r for r in m if r[2] == ALL or int(sizes[r[2]]) > 0]


def impl_history(ds, hist):
    """one Data object through the history; returns per request (at_return, at_end) flat lists, or error"""
    import verif.axis
    d = datagen.impl_data(ds)
    if isinstance(d, tuple):
        return d
    outs, refs = [], []
    for (fs, k, ax, ai) in hist:
        try:
            if ax == ALL:
                r = d.get_scores([datagen.field_obj(f) for f in fs], k)
            else:
                r = d.get_scores([datagen.field_obj(f) for f in fs], k, datagen.axis_obj(ax), ai)
        except datagen.ImplExit as e:
            outs.append(("error", datagen.err_code(str(e))))
            refs.append(None)
            break
        except Exception as e:
            outs.append(("exception", type(e).__name__))
            refs.append(None)
            break
        refs.append(r)
        outs.append([[float(v) for v in np.asarray(a).flatten()] for a in r])
    ends = [None if r is None else [[float(v) for v in np.asarray(a).flatten()] for a in r] for r in refs]
    return list(zip(outs, ends))


def decode_history(flat):
    if len(flat) >= 2 and flat[0] == -7:
        return ("error", int(flat[1]))
    res, pos = [], 0

    def cols(p):
        n = int(flat[p])
        p += 1
        out = []
        for _ in range(n):
            m = int(flat[p])
            out.append(flat[p + 1:p + 1 + m])
            p += 1 + m
        return out, p
    while pos < len(flat):
        assert flat[pos] == -9
        pos += 1
        if flat[pos] == -7:
            res.append((("error", int(flat[pos + 1])), None))
            pos += 2
            assert flat[pos] == -8
            _, pos = cols(pos + 1)
            continue
        a, pos = cols(pos)
        assert flat[pos] == -8
        b, pos = cols(pos + 1)
        res.append((a, b))
    return res


def fingerprint(ds_inputs_objs):
    return [[None if a is None else np.asarray(a).tobytes() for a in
             [i.obs, i.fcst, i.pit, i.ensemble, i.threshold_scores, i.quantile_scores] + [getattr(i, "_other", {}).get(k) for k in sorted(getattr(i, "_other", {}))]]
            for i in ds_inputs_objs]


def explore(out, tier, seed, facts, replay=None):
    with common.quiet():
        return _explore(out, tier, seed, facts, replay)


def _explore(out, tier, seed, facts, replay):
    import verif.data
    datagen.patch_error()
    rng = random.Random(seed * 31 + 18)
    nds = 6 if tier == "quick" else 30
    exh = 2 if tier == "quick" else 3
    nrand = 40 if tier == "quick" else 300
    cases = []      # (ds, history)
    dsets = []
    tries = 0
    while len(dsets) < nds and tries < 500:
        tries += 1
        ds = datagen.gen_dataset(rng, options=(rng.random() < 0.3))
        if rng.random() < 0.5:
            ds["cfg"].pop("clim", None)
        if rng.random() < 0.5:
            for inp in ds["inputs"] + ([ds["cfg"]["clim"]] if "clim" in ds["cfg"] else []):
                nt_, nl_, ns_ = len(inp["times"]), len(inp["leads"]), len(inp["locs"])
                for mname in ("ens0", "ens1"):
                    inp["fields"][mname] = datagen.gen_cube(rng, nt_, nl_, ns_, rng.choice([0, 0.1, 0.3]))
        d = datagen.impl_data(ds)
        if isinstance(d, tuple) or len(d.times) == 0:
            continue
        sizes = datatie.sizes_of(d)
        m = menu(ds, sizes)
        dsets.append((ds, m))
        for L in range(1, exh + 1):
            for h in itertools.product(m, repeat=L):
                cases.append((ds, list(h)))
        for _ in range(nrand):
            L = rng.randint(exh + 1, 10)
            cases.append((ds, [rng.choice(m) for _ in range(L)]))
    # inputs whose dimensions are already the dataset's, in ascending order (the usual case for real files): every cut to the
    # common times / lead times / locations is then the identity, so nothing may alias the input's own arrays
    sorted_sets = []
    for _ in range(6 if tier == "quick" else 30):
        nt_, nl_, ns_ = rng.randint(1, 3), rng.randint(1, 3), rng.randint(1, 3)
        base_ = {"times": [86400 * k for k in range(nt_)], "leads": [6.0 * k for k in range(nl_)], "locs": [[k + 1, 60.0 + k, 10.0 + k, 100.0 * k] for k in range(ns_)]}
        ins_ = []
        for _k in range(rng.randint(2, 3)):
            sp_ = dict(base_, fields={f_: datagen.gen_cube(rng, nt_, nl_, ns_, rng.choice([0.1, 0.3])) for f_ in ("obs", "fcst", "pit", "ens0", "ens1")})
            ins_.append(sp_)
        dss = {"inputs": ins_, "cfg": {}}
        dd = datagen.impl_data(dss)
        if isinstance(dd, tuple) or len(dd.times) == 0:
            continue
        sorted_sets.append((dss, menu(dss, datatie.sizes_of(dd))))
        for h_ in itertools.product(sorted_sets[-1][1][:6], repeat=2):
            cases.append((dss, list(h_)))
    # ---- falsifier on the implementation: the property itself ---------------------------------------
    nf = 0
    fresh_cache = {}

    def fresh(ds, r):
        key = (id(ds), repr(r))
        if key not in fresh_cache:
            x = impl_history(ds, [r])
            fresh_cache[key] = x if isinstance(x, tuple) else x[0][0]
        return fresh_cache[key]
    impl_results = []
    for ds, h in cases:
        res = impl_history(ds, h)
        impl_results.append(res)
        nf += 1
        if isinstance(res, tuple):
            continue
        for i, (at_ret, at_end) in enumerate(res):
            if isinstance(at_ret, tuple):
                if at_ret[0] == "exception":
                    out.violation("unhandled-exception:%s" % at_ret[1], "request %d of history raised %s" % (i, at_ret[1]), {"dataset": ds, "history": h})
                continue
            want = fresh(ds, h[i])
            if not datatie.compare_cols(at_ret, want):
                out.violation("depends-on-history", "request #%d %r after %r returns %s, a freshly built dataset returns %s"
                              % (i, h[i], h[:i], str(at_ret)[:200], str(want)[:200]), {"dataset": ds, "history": h, "index": i})
                break
            if not datatie.compare_cols(at_end, at_ret):
                out.violation("earlier-array-altered", "the arrays returned for request #%d %r were altered by later requests %r"
                              % (i, h[i], h[i + 1:]), {"dataset": ds, "history": h, "index": i})
                break
    # fields DERIVED from the ensemble (quantile levels, threshold probabilities) mixed with member requests: same two
    # clauses (answer as a fresh dataset would; arrays handed out earlier stay as they were).  Not part of the model tie.
    for ds, m in dsets:
        if not all("ens0" in i["fields"] for i in ds["inputs"]):
            continue
        k1 = 1 if len(ds["inputs"]) > 1 else 0
        dm = [(["qu0.5"], 0, ALL, 0), (["qu0.25", "obs"], 0, 3, 0), (["th1.0"], 0, ALL, 0), (["ens0"], 0, ALL, 0), (["ens1"], 0, 3, 0),
              (["ens0", "ens1"], k1, ALL, 0), (["qu0.9"], k1, ALL, 0), (["obs", "fcst"], 0, ALL, 0),
              (["obs", "th1.0"], 0, ALL, 0), (["th1.0", "fcst"], k1, ALL, 0), (["th1.0"], 0, 3, 0)]       # whole arrays of several fields incl. a derived one (with a climatology: anomalies)
        dcases = [list(h) for h in itertools.product(dm, repeat=2)] + [[rng.choice(dm) for _ in range(rng.randint(3, 6))] for _ in range(20 if tier == "quick" else 150)]
        for h in dcases:
            res = impl_history(ds, h)
            nf += 1
            if isinstance(res, tuple):
                continue
            for i, (at_ret, at_end) in enumerate(res):
                if isinstance(at_ret, tuple):
                    if at_ret[0] == "exception":
                        out.violation("unhandled-exception:%s" % at_ret[1], "request %d of history raised %s" % (i, at_ret[1]), {"dataset": ds, "history": h})
                    continue
                want = fresh(ds, h[i])
                if not datatie.compare_cols(at_ret, want):
                    out.violation("depends-on-history:derived", "request #%d %r after %r returns %s, a freshly built dataset returns %s (qu<level> = quantile field, th<t> = threshold probability, ens<k> = member k)"
                                  % (i, h[i], h[:i], str(at_ret)[:200], str(want)[:200]), {"dataset": ds, "history": h, "index": i})
                    break
                if not datatie.compare_cols(at_end, at_ret):
                    out.violation("earlier-array-altered:derived", "the arrays returned for request #%d %r were altered by later requests %r"
                                  % (i, h[i], h[i + 1:]), {"dataset": ds, "history": h, "index": i})
                    break
    # calendar coincidences: the first day of a year is also the first of its month: the slices "year 2012", "month 2012-01" and
    # "day 2012-01-01" carry the same axis value but hold 4, 3 and 1 times; asked in any order on one object each answers as a fresh one
    import verif.axis
    t0_ = 1325376000
    spec_c = {"times": [t0_, t0_ + 86400, t0_ + 14 * 86400, t0_ + 31 * 86400, t0_ + 366 * 86400], "leads": [0.0], "locs": [[1, 0.0, 0.0, 0.0]],
              "fields": {"obs": [[[float(k_)]] for k_ in range(5)], "fcst": [[[float(k_) + 0.5]] for k_ in range(5)]}}
    reqs_c = [("year", 0), ("month", 0), ("day", 0), ("week", 1), ("dayofmonth", 0), ("monthofyear", 0), ("dayofyear", 0)]
    def ask_c(d_, ax_, i_):
        return [[float(v_) for v_ in np.asarray(a_).flatten()] for a_ in d_.get_scores([datagen.field_obj("obs"), datagen.field_obj("fcst")], 0, verif.axis.get(ax_), i_)]
    fresh_c = {}
    for ax_, i_ in reqs_c:
        try:
            fresh_c[(ax_, i_)] = ask_c(verif.data.Data([datagen.mem_input(spec_c, "cal")]), ax_, i_)
        except Exception as e:
            fresh_c[(ax_, i_)] = "exception %s" % type(e).__name__
    for perm_ in itertools.permutations(reqs_c[:4], 3):
        d_c = verif.data.Data([datagen.mem_input(spec_c, "cal")])
        for ax_, i_ in list(perm_) + reqs_c[4:]:
            nf += 1
            try:
                got_c = ask_c(d_c, ax_, i_)
            except Exception as e:
                got_c = "exception %s" % type(e).__name__
            if got_c != fresh_c[(ax_, i_)]:
                out.violation("depends-on-history:time-like-axes", "times 2012-01-01, 01-02, 01-15, 02-01 and 2013-01-01: after the slices %r, slice %d of -x %s returns %r; a fresh dataset returns %r"
                              % ([a_ for a_, _ in perm_], i_, ax_, got_c, fresh_c[(ax_, i_)]), {"dataset": spec_c, "history": [list(x_) for x_ in perm_] + [[ax_, i_]]})
                break
        else:
            continue
        break
    # a climatology together with ensemble-derived fields: whole arrays of several fields, then the derived field alone
    for _ in range(3 if tier == "quick" else 12):
        dsx = datagen.gen_dataset(rng, options=False)
        if "clim" not in dsx["cfg"]:
            dsx["cfg"]["clim"] = copy.deepcopy(dsx["inputs"][0])
            dsx["cfg"]["clim_divide"] = False
        for inp_ in dsx["inputs"] + [dsx["cfg"]["clim"]]:
            nt_, nl_, ns_ = len(inp_["times"]), len(inp_["leads"]), len(inp_["locs"])
            for mname in ("ens0", "ens1"):
                inp_["fields"][mname] = datagen.gen_cube(rng, nt_, nl_, ns_, rng.choice([0, 0.1]))
            if "fcst" not in inp_["fields"]:
                inp_["fields"]["fcst"] = datagen.gen_cube(rng, nt_, nl_, ns_, 0.1)
        if isinstance(datagen.impl_data(dsx), tuple):
            continue
        k1 = 1 if len(dsx["inputs"]) > 1 else 0
        dmx = [(["obs", "th1.0"], 0, ALL, 0), (["th1.0"], 0, ALL, 0), (["th1.0", "fcst"], k1, ALL, 0), (["th1.0"], k1, 3, 0), (["obs", "fcst"], 0, ALL, 0), (["qu0.5", "obs"], 0, ALL, 0), (["qu0.5"], 0, 3, 0)]
        for h in itertools.permutations(dmx, 2):
            h = list(h)
            res = impl_history(dsx, h)
            nf += 1
            if isinstance(res, tuple):
                continue
            for i, (at_ret, at_end) in enumerate(res):
                if isinstance(at_ret, tuple):
                    continue
                want = fresh(dsx, h[i])
                if not datatie.compare_cols(at_ret, want) or not datatie.compare_cols(at_end, at_ret):
                    out.violation("depends-on-history:derived-with-climatology", "with a climatology: request #%d %r after %r returns %s (at the end of the history %s); a freshly built dataset returns %s"
                                  % (i, h[i], h[:i], str(at_ret)[:160], str(at_end)[:100], str(want)[:160]), {"dataset": dsx, "history": h, "index": i})
                    break
            else:
                continue
            break
    # inputs unmodified + two runs identical, on a sample
    for ds, m in dsets + sorted_sets:
        inputs = [datagen.mem_input(s, "in%d" % i) for i, s in enumerate(ds["inputs"])]
        before = fingerprint(inputs)
        kw = {}
        if "clim" in ds["cfg"]:
            kw["clim"] = datagen.mem_input(ds["cfg"]["clim"], "clim")
            kw["clim_type"] = "divide" if ds["cfg"].get("clim_divide") else "subtract"
        if "obs_range" in ds["cfg"]:
            kw["obs_range"] = ds["cfg"]["obs_range"]
        try:
            d = verif.data.Data(inputs, **kw)
            dreq = [(["qu0.5"], 0, ALL, 0), (["th1.0"], 0, ALL, 0), (["qu0.25"], 0, 3, 0)] if all(i.ensemble is not None for i in inputs) else []
            for (fs, k, ax, ai) in m + dreq + m:
                try:
                    if ax == ALL:
                        d.get_scores([datagen.field_obj(f) for f in fs], k)
                    else:
                        d.get_scores([datagen.field_obj(f) for f in fs], k, datagen.axis_obj(ax), ai)
                except datagen.ImplExit:
                    break
        except datagen.ImplExit:
            continue
        nf += 1
        if fingerprint(inputs) != before:
            out.violation("input-modified", "the input objects' arrays were modified by score requests", {"dataset": ds})
        h = [rng.choice(m) for _ in range(6)]
        if repr(impl_history(ds, h)) != repr(impl_history(ds, h)):
            out.violation("not-repeatable", "the same history on the same files gave different results", {"dataset": ds, "history": h})
    # ---- PIT with a discrete probability mass (variable attribute x0 / x1): values are randomised at load ----
    import tempfile
    import verif.input
    import verif.field
    tdir = tempfile.mkdtemp(prefix="verif_c18_", dir=os.environ.get("VERIF_SCRATCH") or None)
    try:
        fn = os.path.join(tdir, "precip.txt")
        with open(fn, "w") as f:
            f.write("# variable: Precip\n# units: mm\n# x0: 0\nunixtime leadtime location obs fcst pit\n")
            for t in range(4):
                for l in range(3):
                    f.write("%d %d 1 %s 1.5 %s\n" % (1325376000 + 86400 * t, 6 * l, "0" if (t + l) % 2 == 0 else "2.5", repr(0.25 + 0.125 * l)))
        pits = []
        for _ in range(2):
            inp = verif.input.get_input(fn)
            raw = np.array(inp.pit, float).copy()
            dd = verif.data.Data([inp])
            pits.append(np.array(dd.get_scores(verif.field.Pit(), 0), float).flatten().tolist())
            nf += 1
            if not np.array_equal(np.array(inp.pit, float), raw, equal_nan=True):
                out.violation("pit-randomize:input-modified", "with the variable attribute x0 set, loading the PIT field multiplies the INPUT's pit array in place "
                              "by random factors (Pit.randomize: pit *= factor): the file's values %r became %r" % (raw.flatten().tolist()[:6], np.array(inp.pit).flatten().tolist()[:6]),
                              {"file": open(fn).read()})
        if pits[0] != pits[1]:
            out.violation("pit-randomize:not-repeatable", "with the variable attribute x0 set, two freshly built datasets of the same file return different PIT values "
                          "(np.random without a seed): %r vs %r" % (pits[0][:6], pits[1][:6]), {"file": open(fn).read()})
    finally:
        import shutil
        shutil.rmtree(tdir, ignore_errors=True)
    # ---- tie: stateful model (repaired semantics: whole-array requests hand out copies) --------------
    exprs = ["run_history true %s %s %s" % (datagen.coq_config(ds["cfg"]), datagen.coq_list(datagen.coq_input(i) for i in ds["inputs"]),
                                            datagen.coq_requests(h)) for ds, h in cases]
    disagreements = []
    try:
        got = common.coq_eval_float_lists("From Coq Require Import ZArith QArith.\nFrom VF Require Import Base.Num Model.Data Model.Cal Model.DataQ "
                                          "Model.DataState Model.DataStateQ.\nOpen Scope Z_scope.", exprs, "c18_%d" % seed, chunk=60, timeout=1800,
                                          float_scope=False, jobs=14)
        for (ds, h), flat, impl in zip(cases, got, impl_results):
            model = decode_history(flat)
            if isinstance(impl, tuple) or isinstance(model, tuple):
                if impl != model:
                    disagreements.append({"dataset": ds, "history": h, "implementation": impl, "model": model})
                continue
            if len(impl) != len(model):
                disagreements.append({"dataset": ds, "history": h, "what": "length", "implementation": len(impl), "model": len(model)})
                continue
            for i, ((a1, e1), (a2, e2)) in enumerate(zip(impl, model)):
                if isinstance(a1, tuple) or isinstance(a2, tuple):
                    if a1 != a2:
                        disagreements.append({"dataset": ds, "history": h, "index": i, "implementation": a1, "model": a2})
                        break
                    continue
                if not datatie.compare_cols(a1, a2) or not datatie.compare_cols(e1, e2):
                    disagreements.append({"dataset": ds, "history": h, "index": i, "implementation": [a1, e1], "model": [a2, e2]})
                    break
    except RuntimeError as ex:
        out.broken_obligation("tie:Model/DataState.v", str(ex)[-1500:])
    if disagreements:
        f = disagreements[0]
        out.broken_obligation("tie:Model/DataState.v<->verif.data.Data (stateful)", "%d of %d histories disagree; first: history=%r index=%r implementation=%s model=%s"
                              % (len(disagreements), len(cases), f["history"], f.get("index"), str(f.get("implementation"))[:300], str(f.get("model"))[:300]))
    lens = {}
    for _, h in cases:
        lens[len(h)] = lens.get(len(h), 0) + 1
    return {
        "evaluations": len(cases) + nf,
        "distinct_nontrivial": len({(id(ds), repr(h)) for ds, h in cases if len(h) >= 2}),
        "rule": "per dataset a menu of 12 requests (single/multiple fields x whole-array/no/leadtime/location/time slices x inputs); "
                "histories exhaustive up to length %d over the menu, plus %d random histories of length %d..10 per dataset; "
                "non-trivial = at least two requests" % (exh, nrand, exh + 1),
        "exhaustive": True,
        "exhaustive_history_length": exh,
        "samples": [{"history": cases[len(cases) // 2][1]}],
        "history_length_histogram": lens,
        "datasets": len(dsets),
        "tie_disagreements": len(disagreements),
        "traces_validated_against_impl": len(cases),
        "states": len(cases), "transitions": sum(len(h) for _, h in cases),
    }
