"""C06 -- categorical scores.  Tie A validation of the generated formulas/counting (float instance)
against Contingency.compute_from_abcd / _compute_abcd / compute_from_obs_fcst, and a falsifier with
an independent textbook oracle over all 2x2 tables up to a total, realised as vectors for every bin
type with thresholds equal to / outside the data."""
import itertools
import math
import random

import numpy as np

import common
from common import fl, close

GEN_PREFIXES = ["verif/metric.py:", "verif/interval.py", "verif/util.py:get_intervals"]
EXTRA_TARGETS = ["Model/Render.vo"]
BUILD_TIMEOUT = 1500
ASSUMPTIONS = [
    "table entries reach compute_from_abcd as numpy integers or NaN (the only callers are _compute_abcd and the "
    "resampler); plain Python ints are outside the model",
    "exact real arithmetic: rounding outside every theorem; comparisons with tolerance 1e-9",
    "numpy masked-array semantics (masked & x = masked, np.ma.sum skips masked, all-masked sum is masked = NaN)",
]
NAMES = "A B C D N Ets FcstRate Dscore Threat Pc Edi Sedi Eds Seds BiasFreq Hss BaseRate Or Lor YulesQ Kss Hit Miss Fa Far".split()
NAN = float("nan")


def textbook(name, a, b, c, d):
    """independent oracle from the literature; None = undefined"""
    n = a + b + c + d
    ln = math.log

    def div(x, y):
        return None if y == 0 else x / y
    if name in "ABCD":
        return div({"A": a, "B": b, "C": c, "D": d}[name], n)
    if name == "N":
        return float(n)
    if name == "BaseRate":
        return div(a + c, n)
    if name == "FcstRate":
        return div(a + b, n)
    if name == "Pc":
        return div(a + d, n)
    if name == "Hit":
        return div(a, a + c)
    if name == "Miss":
        return div(c, a + c)
    if name == "Fa":
        return div(b, b + d)
    if name == "Far":
        return div(b, a + b)
    if name == "Threat":
        return div(a, a + b + c)
    if name == "BiasFreq":
        return div(a + b, a + c)
    if name == "Ets":
        if n == 0:
            return None
        ar = (a + b) * (a + c) / n
        return div(a - ar, a + b + c - ar)
    if name == "Hss":
        if n == 0:
            return None
        e = ((a + b) * (a + c) + (c + d) * (b + d)) / n
        if (a + c) * (c + d) + (a + b) * (b + d) == 0:
            return None
        return div(a + d - e, n - e)
    if name == "Kss":
        h, f = div(a, a + c), div(b, b + d)
        return None if h is None or f is None else h - f
    if name == "Or":
        return div(a * d, b * c)
    if name == "Lor":
        return None if a * d == 0 or b * c == 0 else ln(a * d / (b * c))
    if name == "YulesQ":
        return div(a * d - b * c, a * d + b * c)
    if name == "Dscore":
        return div(a * d + 0.5 * (a * b + c * d), (a + c) * (b + d))
    if name in ("Edi", "Sedi", "Eds", "Seds"):
        if a + c == 0:
            return None
        h = a / (a + c)
        if name in ("Edi", "Sedi"):
            if b + d == 0:
                return None
            f = b / (b + d)
            if h == 0 or f == 0:
                return None
            if name == "Edi":
                return div(ln(f) - ln(h), ln(f) + ln(h))
            if h == 1 or f == 1:
                return None
            return div(ln(f) - ln(h) - ln(1 - f) + ln(1 - h), ln(f) + ln(h) + ln(1 - f) + ln(1 - h))
        if a == 0:
            return None
        den = ln(a / n)
        if abs(den) < 1e-300:
            return None
        if name == "Eds":
            return 2 * ln((a + c) / n) / den - 1
        return (ln((a + b) / n) + ln((a + c) / n)) / den - 1
    raise KeyError(name)


def tables(total):
    for a in range(total + 1):
        for b in range(total + 1 - a):
            for c in range(total + 1 - a - b):
                for d in range(total + 1 - a - b - c):
                    yield (a, b, c, d)


def realise(a, b, c, d, inside, outside):
    """obs/fcst vectors with exactly this table for an event containing `inside` but not `outside`"""
    obs = [inside] * a + [outside] * b + [inside] * c + [outside] * d
    fcst = [inside] * a + [inside] * b + [outside] * c + [outside] * d
    return obs, fcst


def explore(out, tier, seed, facts, replay=None):
    with common.quiet():
        return _explore(out, tier, seed, facts, replay)


def _explore(out, tier, seed, facts, replay):
    import verif.metric
    import verif.util
    import verif.interval
    rng = random.Random(seed)
    N = 8 if tier == "quick" else 16
    tabs = list(tables(N))
    big = [tuple(rng.randint(0, 10 ** rng.randint(1, 6)) for _ in range(4)) for _ in range(200 if tier == "quick" else 3000)]
    # ---- Tie A: generated formulas on floats vs compute_from_abcd with numpy integers ---------
    tie_tabs = list(tables(5)) + big[:60]
    exprs, expected, descr = [], [], []
    metrics = {n: getattr(verif.metric, n)() for n in NAMES}
    for (a, b, c, d) in tie_tabs:
        args = " ".join(fl(x) for x in (a, b, c, d))
        exprs.append("[" + "; ".join("contingency_finish XF (%s_abcd XF %s)" % (n, args) for n in NAMES) + "]")
        exp = []
        for n in NAMES:
            v = metrics[n].compute_from_abcd(np.int64(a), np.int64(b), np.int64(c), np.int64(d))
            v = float(v)
            exp.append(NAN if math.isinf(v) else v)
        expected.append(exp)
        descr.append({"fn": "compute_from_abcd (25 metrics)", "table": [a, b, c, d]})
    # counting: vectors with NaNs on either side
    vals = [-1.0, 0.0, 0.5, 1.0, 2.0, NAN]
    ivs = []
    for bt in ["below", "below=", "above", "above=", "within", "=within", "within=", "=within="]:
        for iv in verif.util.get_intervals(bt, np.array([0.0, 1.0])):
            ivs.append((bt, iv))
    nvec = 40 if tier == "quick" else 400
    for k in range(nvec):
        L = rng.choice([1, 2, 3, 5, 8])
        obs = [rng.choice(vals) for _ in range(L)]
        fcst = [rng.choice(vals) for _ in range(L)]
        if k % 7 == 0:
            obs = [NAN] * L
        bt, iv = ivs[k % len(ivs)]
        bt2, fiv = ivs[(k * 5 + 3) % len(ivs)] if k % 3 == 0 else (bt, iv)
        r = metrics["Hit"]._compute_abcd(np.array(obs), np.array(fcst), iv, fiv)
        r = [NAN if (x is np.ma.masked) else float(x) for x in r]

        def ivt(i):
            return "(Build_interval XF %s %s %s %s)" % (fl(i.lower), fl(i.upper), "true" if i.lower_eq else "false",
                                                         "true" if i.upper_eq else "false")
        exprs.append("r_quad (compute_abcd XF %s %s %s %s)" % (ivt(iv), ivt(fiv), common.fl_list(obs), common.fl_list(fcst)))
        expected.append(r)
        descr.append({"fn": "_compute_abcd", "obs": [repr(x) for x in obs], "fcst": [repr(x) for x in fcst],
                      "interval": str(iv), "f_interval": str(fiv)})
    disagreements = []
    try:
        got = common.coq_eval_float_lists(
            "From VF Require Import Base.Num Base.Vec Base.Event Gen.Gen_interval Gen.Gen_contingency Model.Render.",
            exprs, "c06_%d" % seed)
        for g, e, dsc in zip(got, expected, descr):
            if not common.close_lists(g, [float(v) for v in e], 1e-9):
                bad = [(NAMES[i] if len(e) == 25 else i, g[i], e[i]) for i in range(min(len(g), len(e))) if not close(g[i], e[i])]
                disagreements.append({"case": dsc, "differs": bad[:5]})
    except RuntimeError as ex:
        out.broken_obligation("tie:Gen_contingency", str(ex)[-1500:])
    if disagreements:
        out.broken_obligation("tie:translation-validation", "%d of %d cases differ; first: %r"
                              % (len(disagreements), len(exprs), disagreements[0]))
    # ---- falsifier ----------------------------------------------------------------------------
    nfals = 0
    distinct = set()
    samples = []
    perfect = {n: getattr(verif.metric, n).perfect_score for n in NAMES}

    def check_value(name, tab, got, how):
        want = textbook(name, *tab)
        if isinstance(got, float) and math.isinf(got):
            out.violation("infinite:%s" % name, "%s%r via %s is infinite" % (name, tab, how), {"metric": name, "table": tab, "via": how})
            return
        g = None if (got is np.ma.masked or (isinstance(got, float) and math.isnan(got))) else float(got)
        if want is None or g is None:
            if (want is None) != (g is None):
                # a textbook denominator that is zero only up to rounding is not a finding
                if want is not None and abs(want) > 1e12:
                    return
                out.violation("definedness:%s" % name, "%s%r via %s = %r, textbook %r" % (name, tab, how, got, want),
                              {"metric": name, "table": tab, "via": how})
        elif not close(g, want, 1e-9):
            out.violation("value:%s" % name, "%s%r via %s = %r, textbook %r" % (name, tab, how, g, want),
                          {"metric": name, "table": tab, "via": how})

    for tab in tabs + big:
        a, b, c, d = tab
        for n in NAMES:
            nfals += 1
            try:
                v = metrics[n].compute_from_abcd(np.int64(a), np.int64(b), np.int64(c), np.int64(d))
                v = float(v)
            except Exception as e:
                out.violation("exception:%s" % n, "%s.compute_from_abcd%r raised %r" % (n, tab, e), {"metric": n, "table": tab})
                continue
            check_value(n, tab, v, "compute_from_abcd")      # an infinite value is reported (no metric gives one on a table of counts)
        distinct.add(tab)
        if b == 0 and c == 0:
            for n in NAMES:
                p = perfect[n]
                if p is None:
                    continue
                v = float(metrics[n].compute_from_abcd(np.int64(a), np.int64(0), np.int64(0), np.int64(d)))
                if not (math.isnan(v) or math.isinf(v) or close(v, p)):
                    out.violation("perfect:%s" % n, "perfect forecast table %r gives %s=%r, declared perfect %r" % (tab, n, v, p),
                                  {"metric": n, "table": tab})
    # through vectors: every bin type, thresholds equal to data values / outside the data
    # (inside value, outside value) per interval, including values sitting on a closed/open end
    cases = []
    for bt in ["below", "below=", "above", "above=", "within", "=within", "within=", "=within="]:
        ts = [0.0, 1.0]
        ivs_ = verif.util.get_intervals(bt, np.array(ts))
        ends = [(0.0, 1.0)] if "within" in bt else [(0.0, 0.0), (1.0, 1.0)]
        if len(ivs_) != len(ends):
            out.violation("get_intervals-count:%s" % bt, "get_intervals(%r, [0, 1]) gives %d intervals, expected %d" % (bt, len(ivs_), len(ends)), {"bin_type": bt})
            continue
        for iv, (t_, u_) in zip(ivs_, ends):
            # inside / outside by the DOCUMENTED event of the bin type (not by the implementation), including values on and just
            # off the thresholds
            def doc(x, bt=bt, t_=t_, u_=u_):
                return {"below": x < t_, "below=": x <= t_, "above": x > t_, "above=": x >= t_,
                        "within": t_ < x < u_, "=within": t_ <= x < u_, "within=": t_ < x <= u_, "=within=": t_ <= x <= u_}[bt]
            cand = [-5.0, 0.0, 0.5, 1.0, 7.0, t_ - 1e-6, t_ + 1e-6, u_ - 1e-6, u_ + 1e-6]
            ins = [x for x in cand if doc(x)]
            outs = [x for x in cand if not doc(x)]
            ins = ins[:2] + [x for x in ins if x in (t_, u_, t_ - 1e-6, t_ + 1e-6, u_ - 1e-6, u_ + 1e-6)][:3] + ins[-1:]
            outs = outs[:2] + [x for x in outs if x in (t_, u_, t_ - 1e-6, t_ + 1e-6, u_ - 1e-6, u_ + 1e-6)][:3] + outs[-1:]
            for i in list(dict.fromkeys(ins)):
                for o in list(dict.fromkeys(outs)):
                    cases.append((bt, iv, i, o))
    vt = list(tables(4 if tier == "quick" else 6))
    rng.shuffle(vt)
    for k, tab in enumerate(vt[: (120 if tier == "quick" else 10 ** 6)]):
        a, b, c, d = tab
        for bt, iv, ins, outs in (cases if tier != "quick" else cases[k % 7::7]):
            obs, fcst = realise(a, b, c, d, ins, outs)
            # add pairs with a missing side: they must not change anything
            obs2 = obs + [NAN, ins, NAN]
            fcst2 = fcst + [ins, NAN, NAN]
            perm = list(range(len(obs2)))
            rng.shuffle(perm)
            o = np.array([obs2[i] for i in perm], float)
            f = np.array([fcst2[i] for i in perm], float)
            ab = metrics["Hit"]._compute_abcd(o, f, iv)
            nfals += 1
            if a + b + c + d > 0:
                if [float(x) for x in ab] != [float(a), float(b), float(c), float(d)]:
                    out.violation("counting:%s" % bt, "_compute_abcd gives %r for table %r (-b %s, in=%r out=%r)" % (ab, tab, bt, ins, outs),
                                  {"table": tab, "bin_type": bt, "obs": [repr(x) for x in o], "fcst": [repr(x) for x in f]})
                    continue
                sw = metrics["Hit"]._compute_abcd(f, o, iv)
                if [float(x) for x in sw] != [float(a), float(c), float(b), float(d)]:
                    out.violation("swap:%s" % bt, "swapping obs/fcst gives %r for table %r" % (sw, tab), {"table": tab, "bin_type": bt})
            for n in NAMES:
                nfals += 1
                try:
                    v = metrics[n].compute_from_obs_fcst(o, f, iv)
                except Exception as e:
                    out.violation("exception:%s" % n, "%s.compute_from_obs_fcst raised %r on table %r" % (n, e, tab),
                                  {"metric": n, "table": tab, "bin_type": bt})
                    continue
                if a + b + c + d == 0:
                    vv = NAN if v is np.ma.masked else float(v)
                    if not math.isnan(vv):
                        out.violation("empty:%s" % n, "%s on no valid pair gives %r" % (n, v), {"metric": n, "bin_type": bt})
                    continue
                check_value(n, tab, v if v is np.ma.masked else float(v), "compute_from_obs_fcst(-b %s)" % bt)
            if len(samples) < 3 and k % 11 == 0:
                samples.append({"table": tab, "bin_type": bt, "inside": ins, "outside": outs})
    # complement: above t vs below= t on the same data
    for k in range(60 if tier == "quick" else 600):
        L = rng.randint(1, 9)
        o = np.array([rng.choice([-1.0, 0.0, 0.5, 1.0, 2.0]) for _ in range(L)])
        f = np.array([rng.choice([-1.0, 0.0, 0.5, 1.0, 2.0]) for _ in range(L)])
        t = rng.choice([0.0, 0.5, 1.0, 5.0])
        ia = verif.util.get_intervals("above", np.array([t]))[0]
        ib = verif.util.get_intervals("below=", np.array([t]))[0]
        x = [float(v) for v in metrics["Hit"]._compute_abcd(o, f, ia)]
        y = [float(v) for v in metrics["Hit"]._compute_abcd(o, f, ib)]
        nfals += 1
        if x != [y[3], y[2], y[1], y[0]]:
            out.violation("complement", "above %r table %r vs below= table %r" % (t, x, y), {"t": t, "obs": list(o), "fcst": list(f)})
    return {
        "evaluations": len(exprs) + nfals,
        "distinct_nontrivial": len(distinct),
        "rule": "all 2x2 tables with total <= %d (exhaustive) plus seeded random large tables, x 25 metrics; vectors realising "
                "tables for each of the 8 bin types with inside/outside values on closed and open ends, NaN pairs added and "
                "shuffled; distinct = distinct tables; non-trivial: every table exercises at least one guard or formula" % N,
        "exhaustive_up_to_total": N,
        "samples": samples or [descr[0]],
        "programs": len(exprs),
        "disagreements_checked": len(exprs),
        "tie_disagreements": len(disagreements),
        "falsifier_evaluations": nfals,
    }
