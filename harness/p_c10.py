"""C10 -- NetCDF input.  Tie A: the generated cell rule of util.clean (float instance) against
util.clean on real NetCDF variables carrying every missing-value encoding.  Tie B / falsifier: the
same abstract dataset written as a text file and as a NetCDF file (netCDF4), read by
verif.input.get_input: dimensions, metadata, every field and the scores must agree; text2nc
conversion to float32 precision; detection from content with misleading file names."""
import importlib.util
import math
import os
import random
import shutil
import sys
import tempfile

import numpy as np

import common
import datagen
from common import fl, close

GEN_PREFIXES = ["verif/util.py:clean", "verif/input.py", "scripts/text2nc.py"]
EXTRA_TARGETS = ["Model/Render.vo", "Gen/Gen_io.vo"]
ASSUMPTIONS = ["the netCDF4 library and the file system are outside the model", "units are compared without the $...$ wrapper the NetCDF reader adds for display", "values are float32-representable (multiples of 1/4, lead times among 0,1,1.5,3,6,24)",
               "a station without an altitude variable has no elevation in NetCDF and elevation 0 in text: not compared"]
NAN = float("nan")


def gen_abstract(rng):
    nt, nl, ns = rng.randint(1, 3), rng.randint(1, 3), rng.randint(1, 3)
    times = sorted(rng.sample([1325376000, 1325397600, 1330473600, 1356912000, 951868800], nt))
    leads = sorted(rng.sample([0.0, 1.0, 1.5, 3.0, 6.0, 24.0], nl))
    ids_from_zero = rng.random() < 0.3
    locs = sorted(rng.sample([(1, 60.0, 10.0, 100.0), (2, 60.5, 10.5, 0.0), (7, 59.0, -120.0, 250.0), (18, -33.5, 151.25, 12.0)], ns))
    if ids_from_zero:
        locs = [(i, l[1], l[2], l[3]) for i, l in enumerate(locs)]
    fields = ["obs", "fcst"] if rng.random() < 0.85 else [rng.choice(["obs", "fcst"])]      # a file may lack observations (or forecasts)
    if rng.random() < 0.4:
        fields.append("pit")
    thr = sorted(rng.sample([-5.0, 0.0, 1.0, 5.0, 10.0, 20.0], rng.choice([0, 1, 2, 3, 4])))
    qua = sorted(rng.sample([0.125, 0.25, 0.5, 0.75, 0.875], rng.choice([0, 1, 2, 3, 5, 5])))      # with five levels a set of floats no longer iterates in ascending order
    nmem = rng.choice([0, 0, 1, 2, 3])      # a single member is an ensemble too
    other = ["crps"] if rng.random() < 0.3 else []
    def cube(extra=None):
        shape = (nt, nl, ns) + (() if extra is None else (extra,))
        a = np.array([rng.randint(-8, 40) / 4.0 for _ in range(int(np.prod(shape)))]).reshape(shape)
        m = np.array([rng.random() < 0.15 for _ in range(int(np.prod(shape)))]).reshape(shape)
        a[m] = NAN
        return a
    d = {"times": times, "leads": leads, "locs": locs, "ids_from_zero": ids_from_zero, "thr": thr, "qua": qua, "nmem": nmem,
         "arrays": {f: cube() for f in fields + other}, "other": other,
         # discrete probability masses of the variable (0 for precipitation, 100 for relative humidity); 0 is a value, not "absent"
         "x0": rng.choice([None, None, 0.0, 0.0, 1.0]), "x1": rng.choice([None, None, 100.0, 0.0])}
    if thr:
        d["cdf"] = cube(len(thr))
    if qua:
        d["x"] = cube(len(qua))
    if nmem:
        d["ens"] = cube(nmem)
    return d


def write_text(path, d):
    cols = [f for f in d["arrays"]]
    hdr = ["unixtime", "leadtime", "location", "lat", "lon", "altitude"] + cols + ["p%g" % t for t in d["thr"]] + ["q%g" % q for q in d["qua"]] + \
          ["e%d" % m for m in range(d["nmem"])]
    with open(path, "w") as f:
        f.write("# variable: Temperature\n# units: degC\n")
        for k_ in ("x0", "x1"):
            if d.get(k_) is not None:
                f.write("# %s: %g\n" % (k_, d[k_]))
        f.write(" ".join(hdr) + "\n")
        for a, t in enumerate(d["times"]):
            for b, l in enumerate(d["leads"]):
                for s, loc in enumerate(d["locs"]):
                    toks = ["%d" % t, "%g" % l, "%d" % loc[0], "%g" % loc[1], "%g" % loc[2], "%g" % loc[3]]
                    def tk(v):
                        return "-999" if math.isnan(v) else repr(float(v))
                    toks += [tk(d["arrays"][c][a, b, s]) for c in cols]
                    toks += [tk(d["cdf"][a, b, s, k]) for k in range(len(d["thr"]))]
                    toks += [tk(d["x"][a, b, s, k]) for k in range(len(d["qua"]))]
                    toks += [tk(d["ens"][a, b, s, k]) for k in range(d["nmem"])]
                    f.write(" ".join(toks) + "\n")


def write_nc(path, d, rng, opts):
    import netCDF4
    nc = netCDF4.Dataset(path, "w")
    nc.createDimension("time", None)
    nc.createDimension("leadtime", len(d["leads"]))
    nc.createDimension("location", len(d["locs"]))
    v = nc.createVariable("time", "f8", ("time",))
    v[:] = d["times"]
    v = nc.createVariable("leadtime", "f4", ("leadtime",))
    v[:] = d["leads"]
    if opts["location"]:
        v = nc.createVariable("location", "i4", ("location",))
        v[:] = [l[0] for l in d["locs"]]
    if opts["latlon"]:
        nc.createVariable("lat", "f4", ("location",))[:] = [l[1] for l in d["locs"]]
        nc.createVariable("lon", "f4", ("location",))[:] = [l[2] for l in d["locs"]]
    if opts["altitude"]:
        nc.createVariable("altitude", "f4", ("location",))[:] = [l[3] for l in d["locs"]]

    def put(name, arr, dims):
        fill = opts["fill"]
        var = nc.createVariable(name, "f4", dims, fill_value=fill) if fill is not None else nc.createVariable(name, "f4", dims)
        a = np.array(arr, float)
        miss = np.isnan(a)
        # spread the missing cells over the encodings
        enc = np.array([rng.choice(["nan", "masked", "-999", "huge"]) for _ in range(a.size)]).reshape(a.shape)
        raw = a.copy()
        raw[miss & (enc == "-999")] = -999.0
        raw[miss & (enc == "huge")] = 2e31
        m = np.ma.masked_array(raw, mask=miss & (enc == "masked"))
        var[:] = m
    for f, arr in d["arrays"].items():
        put(f, arr, ("time", "leadtime", "location"))
    if d["thr"]:
        nc.createDimension("threshold", len(d["thr"]))
        nc.createVariable("threshold", "f4", ("threshold",))[:] = d["thr"]
        put("cdf", d["cdf"], ("time", "leadtime", "location", "threshold"))
    if d["qua"]:
        nc.createDimension("quantile", len(d["qua"]))
        nc.createVariable("quantile", "f4", ("quantile",))[:] = d["qua"]
        put("x", d["x"], ("time", "leadtime", "location", "quantile"))
    if d["nmem"]:
        nc.createDimension("ensemble_member", d["nmem"])
        put("ensemble", d["ens"], ("time", "leadtime", "location", "ensemble_member"))
    nc.standard_name = "Temperature"
    nc.units = "degC"
    for k_ in ("x0", "x1"):
        if d.get(k_) is not None:
            setattr(nc, k_, float(d[k_]))
    nc.close()


def canon(inp):
    order = sorted(range(len(inp.locations)), key=lambda i: inp.locations[i].id)
    out = {"times": [float(t) for t in inp.times], "leads": [float(t) for t in inp.leadtimes],
           "locs": [(float(inp.locations[i].id), float(inp.locations[i].lat), float(inp.locations[i].lon), float(inp.locations[i].elev)) for i in order]}

    def r3(a):
        return None if a is None else np.asarray(a, float)[:, :, order]
    out["obs"], out["fcst"], out["pit"] = r3(inp.obs), r3(inp.fcst), r3(inp.pit)
    ts = list(np.asarray(inp.thresholds, float))
    out["thr"] = sorted(ts)
    out["cdf"] = None if not ts else np.asarray(inp.threshold_scores, float)[:, :, order][:, :, :, np.argsort(ts)]
    qs = list(np.asarray(inp.quantiles, float))
    out["qua"] = sorted(qs)
    out["x"] = None if not qs else np.asarray(inp.quantile_scores, float)[:, :, order][:, :, :, np.argsort(qs)]
    e = inp.ensemble
    out["ens"] = None if e is None or np.asarray(e).shape[-1] == 0 else np.asarray(e, float)[:, :, order]
    out["other_names"] = sorted(str(n) for n in inp.other_fields)
    out["other"] = {str(n): np.asarray(inp.other_score(n), float)[:, :, order] for n in inp.other_fields if np.asarray(inp.other_score(n)).ndim == 3}
    out["field_names"] = sorted(f.name() for f in inp.get_fields())
    out["variable"] = (str(inp.variable.name), str(inp.variable.units).replace("$", ""), inp.variable.x0, inp.variable.x1)
    return out


def same(a, b, tol=1e-6):
    if a is None or b is None:
        return a is None and b is None
    a, b = np.asarray(a, float), np.asarray(b, float)
    if a.shape != b.shape:
        return False
    return all(close(x, y, tol) for x, y in zip(a.flatten(), b.flatten()))


def explore(out, tier, seed, facts, replay=None):
    with common.quiet():
        return _explore(out, tier, seed, facts, replay)


def _explore(out, tier, seed, facts, replay):
    import netCDF4
    import verif.input
    import verif.util
    import verif.data
    import verif.axis
    import verif.metric
    import verif.interval
    datagen.patch_error()
    rng = random.Random(seed + 1010)
    tmp = tempfile.mkdtemp(prefix="vfc10_")
    nf = 0
    distinct = set()
    samples = []
    exprs, expected, descr = [], [], []
    try:
        # ---- Tie A: the cell rule ----------------------------------------------------------------------
        for k, fill in enumerate([None, -9999.0, 1e20, -999.0]):
            fn = os.path.join(tmp, "cells%d.nc" % k)
            nc = netCDF4.Dataset(fn, "w")
            nc.createDimension("n", 9)
            v = nc.createVariable("x", "f4", ("n",), fill_value=fill) if fill is not None else nc.createVariable("x", "f4", ("n",))
            raw = [1.0, -999.0, NAN, 2e31, 5.0, 7.25, 0.0, -1e30, 5e29]
            mask = [0, 0, 0, 0, 1, 0, 0, 0, 0]
            v[:] = np.ma.masked_array(raw, mask=mask)
            nc.close()
            nc = netCDF4.Dataset(fn)
            got = [float(x) for x in verif.util.clean(nc.variables["x"])]
            nc.close()
            stored = [float(np.float32(x)) for x in raw]
            exprs.append("[" + "; ".join("clean_cell XF %s %s" % ("true" if m else "false", fl(x)) for x, m in zip(stored, mask)) + "]")
            expected.append(got)
            descr.append({"fill_value": fill, "raw": [repr(x) for x in raw], "mask": mask})
            nf += 1
            want_missing = [False, True, True, True, True, False, False, False, False]
            if [math.isnan(x) for x in got] != want_missing or not close(got[0], 1.0) or not close(got[5], 7.25):
                out.violation("netcdf-encoding", "util.clean reads [1, -999, nan, 2e31, masked, 7.25, 0, -1e30, 5e29] with _FillValue %r as %r"
                              % (fill, got), {"fill_value": fill})
        # ---- Tie B: text and NetCDF of the same abstract dataset -----------------------------------------
        n = 40 if tier == "quick" else 500
        for ci in range(n):
            d = gen_abstract(rng)
            if ci == 0:
                # always once: the only threshold is 0 (a lone p0 column) -- levels that are all zero are still levels
                d["thr"] = [0.0]
                d["cdf"] = np.array([rng.randint(0, 8) / 8.0 for _ in range(len(d["times"]) * len(d["leads"]) * len(d["locs"]))]).reshape(len(d["times"]), len(d["leads"]), len(d["locs"]), 1)
            opts = {"location": True if not d["ids_from_zero"] else rng.random() < 0.5, "latlon": rng.random() < 0.85,
                    "altitude": rng.random() < 0.8, "fill": rng.choice([None, None, -9999.0, 1e20])}
            ft = os.path.join(tmp, "d%d_a.dat" % ci)          # names carry no hint of the format
            fnc = os.path.join(tmp, "d%d_b.dat" % ci)
            write_text(ft, d)
            write_nc(fnc, d, rng, opts)
            nf += 1
            distinct.add((len(d["times"]), len(d["leads"]), len(d["locs"]), tuple(sorted(opts.items(), key=str)), len(d["thr"]), len(d["qua"]), d["nmem"]))
            try:
                it, inn = verif.input.get_input(ft), verif.input.get_input(fnc)
            except Exception as e:
                out.violation("reader-exception", "get_input raised %r" % e, {"options": opts})
                continue
            if not isinstance(it, verif.input.Text) or not isinstance(inn, verif.input.Netcdf):
                out.violation("detection", "text file read as %s, NetCDF file as %s" % (type(it).__name__, type(inn).__name__), {"options": opts})
                continue
            a, b = canon(it), canon(inn)
            bad = []
            if a["times"] != b["times"] or not same(a["leads"], b["leads"]):
                bad.append("dimensions")
            if [l[0] for l in a["locs"]] != [l[0] for l in b["locs"]]:
                bad.append("location ids")
            if opts["latlon"] and not same([l[1:3] for l in a["locs"]], [l[1:3] for l in b["locs"]]):
                bad.append("lat/lon")
            if opts["altitude"] and not same([l[3] for l in a["locs"]], [l[3] for l in b["locs"]]):
                bad.append("elevation")
            for f in ("obs", "fcst", "pit", "cdf", "x", "ens"):
                if not same(a[f], b[f]):
                    bad.append(f)
            if a["thr"] != b["thr"] or a["qua"] != b["qua"]:
                bad.append("thresholds/quantiles")
            for k_ in ("x0", "x1"):
                va, vb = getattr(it.variable, k_), getattr(inn.variable, k_)
                want_ = d.get(k_)
                if not ((va is None and vb is None and want_ is None) or (va is not None and vb is not None and want_ is not None
                                                                         and float(va) == float(vb) == float(want_))):
                    bad.append("variable attribute %s (text %r, NetCDF %r, written %r)" % (k_, va, vb, want_))
            if a["other_names"] != b["other_names"] or a["field_names"] != b["field_names"]:
                bad.append("the list of fields (text: other fields %r, all %r; NetCDF: other fields %r, all %r)" % (a["other_names"], a["field_names"], b["other_names"], b["field_names"]))
            if a["variable"][:2] != b["variable"][:2]:
                bad.append("variable name/units (text %r, NetCDF %r)" % (a["variable"][:2], b["variable"][:2]))
            for o in d["other"]:
                oa = np.asarray(it.other_score(o))[:, :, sorted(range(len(it.locations)), key=lambda i: it.locations[i].id)]
                ob = np.asarray(inn.other_score(o))[:, :, sorted(range(len(inn.locations)), key=lambda i: inn.locations[i].id)]
                if not same(oa, ob):
                    bad.append(o)
            if bad:
                out.violation("text-vs-netcdf:%s" % bad[0].split(" (")[0], "the text and NetCDF files of the same dataset differ in %s (NetCDF options %r)" % (", ".join(bad), opts),
                              {"options": {k: (v if v is None else repr(v)) for k, v in opts.items()}, "times": d["times"], "leads": d["leads"]})
                continue
            # the scores agree
            try:
                dt, dn = verif.data.Data([it]), verif.data.Data([inn])
                for mname in ("mae", "corr", "ets"):
                    m = verif.metric.get(mname)
                    iv = verif.interval.Interval(1.0, np.inf, False, False)
                    st = m.compute(dt, 0, verif.axis.Leadtime(), iv)
                    sn = m.compute(dn, 0, verif.axis.Leadtime(), iv)
                    if not same(st, sn):
                        out.violation("scores-differ", "%s differs between the text and the NetCDF version: %r vs %r" % (mname, st, sn), {"options": str(opts)})
                both = verif.data.Data([it, inn])
                if [float(t) for t in both.times] != a["times"] or len(both.locations) != len(a["locs"]):
                    out.violation("joint-dataset", "text + NetCDF of the same dataset do not share all times/locations", {"options": str(opts)})
            except datagen.ImplExit:
                pass
            if len(samples) < 2:
                samples.append({"options": str(opts), "dims": [len(d["times"]), len(d["leads"]), len(d["locs"])], "thresholds": d["thr"], "quantiles": d["qua"], "members": d["nmem"]})
            # ---- text2nc -------------------------------------------------------------------------------
            if ci % 2 == 0:
                spec = importlib.util.spec_from_file_location("text2nc_mod", os.path.join(common.REPO, "scripts", "text2nc.py"))
                mod = importlib.util.module_from_spec(spec)
                spec.loader.exec_module(mod)
                fo = os.path.join(tmp, "d%d_c.dat" % ci)
                argv = sys.argv
                sys.argv = ["text2nc", ft, fo]
                try:
                    mod.main()
                except SystemExit:
                    pass
                except Exception as e:
                    out.violation("text2nc-exception", "text2nc raised %r" % e, {"file": open(ft).read()[:500]})
                    sys.argv = argv
                    continue
                sys.argv = argv
                nf += 1
                c = canon(verif.input.get_input(fo))
                bad = []
                if c["times"] != a["times"]:
                    bad.append("times %r vs %r" % (c["times"], a["times"]))
                if not same(c["leads"], a["leads"], 1e-6) or [l[0] for l in c["locs"]] != [l[0] for l in a["locs"]]:
                    bad.append("leadtimes/locations")
                if not same([l[1:] for l in c["locs"]], [l[1:] for l in a["locs"]], 1e-6):
                    bad.append("location metadata")
                for f in ("obs", "fcst", "pit", "cdf", "x", "ens"):
                    if not same(c[f], a[f], 1e-6):
                        bad.append(f + (" (absent in the text file, present after conversion)" if a[f] is None else " (absent after conversion)" if c[f] is None else ""))
                if c["thr"] != a["thr"] or c["qua"] != a["qua"]:
                    bad.append("thresholds/quantiles")
                if c["other_names"] != a["other_names"] or c["field_names"] != a["field_names"]:
                    bad.append("fields: %r in the text file, %r after conversion" % (a["field_names"], c["field_names"]))
                for o_ in a["other"]:
                    if o_ in c["other"] and not same(c["other"][o_], a["other"][o_], 1e-6):
                        bad.append(o_)
                if c["variable"] != a["variable"]:
                    bad.append("variable (name, units, x0, x1): %r in the text file, %r after conversion" % (a["variable"], c["variable"]))
                if bad:
                    out.violation("text2nc:%s" % bad[0].split(":")[0].split(" (")[0], "text2nc does not preserve %s" % "; ".join(bad), {"file": open(ft).read()[:600]})
        # a missing entry in the time coordinate: the text file has -999 in its unixtime column, the NetCDF file a masked / NaN / -999
        # time; both readers must deliver the same times and values
        import netCDF4
        for enc in ("masked", "nan", "-999"):
            ftm = os.path.join(tmp, "tmiss.txt")
            open(ftm, "w").write("unixtime leadtime location obs fcst\n1325376000 0 1 1 2\n-999 0 1 5 6\n1325462400 0 1 3 4.5\n")
            fnm = os.path.join(tmp, "tmiss_%s.nc" % enc.strip("-"))
            nc = netCDF4.Dataset(fnm, "w")
            nc.createDimension("time", None)
            nc.createDimension("leadtime", 1)
            nc.createDimension("location", 1)
            vt = nc.createVariable("time", "f8", ("time",))
            tv = np.ma.masked_array([1325376000.0, 0.0, 1325462400.0], mask=[0, enc == "masked", 0])
            if enc == "nan":
                tv[1] = np.nan
            if enc == "-999":
                tv[1] = -999.0
            vt[:] = tv
            nc.createVariable("leadtime", "f4", ("leadtime",))[:] = [0.0]
            nc.createVariable("location", "i4", ("location",))[:] = [1]
            nc.createVariable("obs", "f4", ("time", "leadtime", "location"))[:] = np.array([1.0, 5.0, 3.0]).reshape(3, 1, 1)
            nc.createVariable("fcst", "f4", ("time", "leadtime", "location"))[:] = np.array([2.0, 6.0, 4.5]).reshape(3, 1, 1)
            nc.close()
            nf += 1
            res_ = {}
            for nm_, fpath in (("text", ftm), ("NetCDF", fnm)):
                try:
                    dd_ = verif.data.Data([verif.input.get_input(fpath)])
                    res_[nm_] = ([float(t_) for t_ in dd_.times], [float(x_) for x_ in verif.metric.Mae().compute(dd_, 0, verif.axis.Time(), None)])
                except datagen.ImplExit as e:
                    res_[nm_] = ("error", str(e)[:80])
                except Exception as e:
                    res_[nm_] = ("exception", "%s: %s" % (type(e).__name__, str(e)[:80]))
            if res_["text"] != res_["NetCDF"] or res_["text"][0] in ("error", "exception"):
                out.violation("missing-time-entry", "a file whose second time entry is missing (%s in NetCDF, -999 in text): the text file gives %r, the NetCDF file %r" % (enc, res_["text"], res_["NetCDF"]),
                              {"encoding": enc})
        # times that are not float32-representable survive the conversion (unix times are stored as f8)
        fn = os.path.join(tmp, "odd.txt")
        open(fn, "w").write("unixtime leadtime location obs fcst\n1325397605 0 1 1 2\n1330473677 0 1 2 3\n")
        spec = importlib.util.spec_from_file_location("text2nc_mod", os.path.join(common.REPO, "scripts", "text2nc.py"))
        mod = importlib.util.module_from_spec(spec)
        spec.loader.exec_module(mod)
        argv = sys.argv
        sys.argv = ["text2nc", fn, os.path.join(tmp, "odd.nc")]
        try:
            mod.main()
        except SystemExit:
            pass
        sys.argv = argv
        nf += 1
        tt = [float(t) for t in verif.input.get_input(os.path.join(tmp, "odd.nc")).times]
        if tt != [1325397605.0, 1330473677.0]:
            out.violation("text2nc:times", "text2nc changed the unix times 1325397605, 1330473677 to %r" % tt, {"times": [1325397605, 1330473677]})
        # ---- detection with misleading names ------------------------------------------------------------
        shutil.copy(os.path.join(tmp, "d0_a.dat"), os.path.join(tmp, "looks_like.nc"))
        shutil.copy(os.path.join(tmp, "d0_b.dat"), os.path.join(tmp, "looks_like.txt"))
        nf += 2
        for nm_, kind_, cls_ in (("looks_like.nc", "text", verif.input.Text), ("looks_like.txt", "NetCDF", verif.input.Netcdf)):
            for ext2 in ("", ".csv" if kind_ == "NetCDF" else ".nc4"):
                path_ = os.path.join(tmp, nm_ + ext2)
                if ext2:
                    shutil.copy(os.path.join(tmp, nm_), path_)
                try:
                    got_cls = type(verif.input.get_input(path_)).__name__
                except BaseException as e:
                    got_cls = "exception %s: %s" % (type(e).__name__, str(e)[:80])
                if got_cls != cls_.__name__:
                    out.violation("detection:%s" % kind_.lower(), "a %s file named %s is read as %s: the format must be detected from the content, not from the name"
                                  % (kind_, os.path.basename(path_), got_cls), {"content": kind_, "file_name": os.path.basename(path_)})
    finally:
        shutil.rmtree(tmp, ignore_errors=True)
    disagreements = []
    try:
        got = common.coq_eval_float_lists("From VF Require Import Base.Num Base.Vec Base.Event Gen.Gen_io Model.Render.", exprs, "c10_%d" % seed)
        for g, e, dsc in zip(got, expected, descr):
            if not common.close_lists(g, e, 1e-6):
                disagreements.append({"case": dsc, "model": g, "implementation": e})
    except RuntimeError as ex:
        out.broken_obligation("tie:Gen_io", str(ex)[-1500:])
    if disagreements:
        out.broken_obligation("tie:clean_cell", "%d of %d variables differ; first %r" % (len(disagreements), len(exprs), disagreements[0]))
    return {
        "evaluations": len(exprs) * 9 + nf,
        "distinct_nontrivial": len(distinct) + len(exprs),
        "rule": "abstract datasets (1-3 times/leads/locations, 15% missing cells, optional pit/cdf/quantile/ensemble/other fields) written as a "
                "text file and as a NetCDF file with optional location/lat-lon/altitude variables, default or custom fill value, missing cells "
                "spread over NaN/masked/-999/>1e30; every 4th converted with text2nc; distinct = (dims, NetCDF options, field set)",
        "samples": samples or [descr[0]],
        "programs": len(exprs), "disagreements_checked": len(exprs), "tie_disagreements": len(disagreements),
        "falsifier_evaluations": nf, "traces_validated_against_impl": nf,
    }
