"""C08 -- probabilistic scores.  Tie A: generated formulas + the binned-term / ensemble glue model
(float instance) against the real classes and Data; falsifier: independent definitions, the Murphy
decomposition, complement symmetry, ensemble-derived probabilities and quantiles."""
import math
import random

import numpy as np

import common
import datagen
from common import fl, fl_list, close

GEN_PREFIXES = ["verif/metric.py:", "verif/interval.py", "verif/util.py:get_intervals"]
EXTRA_TARGETS = ["Model/Render.vo", "Model/Brier.vo"]
ASSUMPTIONS = ["np.quantile(method='normal_unbiased') is library code, restated in Model/Brier.v (quantile_from_ens) and compared",
               "which CDF/quantile columns a metric requests from Data is not translated; the delivered arrays are parameters",
               "PIT histogram metrics use np.histogram (library): checked by the falsifier against an independent histogram only"]
NAN = float("nan")
INF = float("inf")
BTS = ["below", "below=", "above", "above=", "within", "=within", "within=", "=within="]


class Stub:
    """stands in for verif.data.Data: hands out prepared arrays by field"""

    def __init__(self, obs, cdf=None, quant=None, fcst=None):
        self.obs, self.cdf, self.quant, self.fcst = np.array(obs, float), cdf or {}, quant or {}, fcst

    def get_scores(self, fields, input_index, axis=None, axis_index=None):
        import verif.field
        single = not isinstance(fields, list)
        fl_ = [fields] if single else fields
        out = []
        for f in fl_:
            if isinstance(f, verif.field.Obs):
                out.append(self.obs.copy())
            elif isinstance(f, verif.field.Fcst):
                out.append(np.array(self.fcst, float))
            elif isinstance(f, verif.field.Threshold):
                out.append(np.array(self.cdf[round(float(f.threshold), 6)], float))
            elif isinstance(f, verif.field.Quantile):
                out.append(np.array(self.quant[round(float(f.quantile), 6)], float))
            else:
                raise KeyError(f)
        return out[0] if single else out


def ivt(i):
    return "(Build_interval XF %s %s %s %s)" % (fl(i.lower), fl(i.upper), "true" if i.lower_eq else "false", "true" if i.upper_eq else "false")


def explore(out, tier, seed, facts, replay=None):
    with common.quiet():
        return _explore(out, tier, seed, facts, replay)


def _explore(out, tier, seed, facts, replay):
    import verif.metric
    import verif.util
    import verif.field
    import verif.data
    import verif.axis
    datagen.patch_error()
    rng = random.Random(seed + 808)
    PV = [0.0, 0.05, 0.1, 0.25, 0.3, 0.5, 0.7, 0.9, 0.95, 0.999, 1.0]
    exprs, expected, descr = [], [], []
    ncase = 120 if tier == "quick" else 1200
    M = {n: getattr(verif.metric, n)() for n in ["Bs", "BsUnc", "Bss", "BsRel", "BsRes", "BssRel", "BssRes", "QuantileScore", "Spread",
                                                 "MarginalRatio", "Spherical", "Ign0", "QuantileCoverage"]}
    for _ in range(ncase):
        L = rng.randint(1, 10)
        kind = rng.random()
        if kind < 0.2:
            o = [rng.choice([0.0, 1.0])] * L                    # constant observations (unc = 0)
        else:
            o = [rng.choice([0.0, 1.0]) for _ in range(L)]
        p = [rng.choice(PV) for _ in range(L)]
        terms = ["Bs_core XF %s %s" % (fl_list(o), fl_list(p)), "BsUnc_core XF %s %s" % (fl_list(o), fl_list(p)),
                 "Bss_core XF %s %s" % (fl_list(o), fl_list(p)), "BsRel_model XF %s %s" % (fl_list(o), fl_list(p)),
                 "BsRes_model XF %s %s" % (fl_list(o), fl_list(p)), "BssRel_model XF %s %s" % (fl_list(o), fl_list(p)),
                 "BssRes_model XF %s %s" % (fl_list(o), fl_list(p))]
        exp = [float(M[n].compute_from_obs_fcst(np.array(o), np.array(p))) for n in ("Bs", "BsUnc", "Bss", "BsRel", "BsRes", "BssRel", "BssRes")]
        # event probability / spherical / ignorance / marginal ratio through get_p on a stub dataset
        bt = rng.choice(BTS)
        t, u = 1.0, 2.5
        iv = verif.util.get_intervals(bt, np.array([t, u]))[0]
        xs = [rng.choice([0.0, 1.0, 1.75, 2.5, 4.0]) for _ in range(L)]      # observed values
        c_lo = [rng.choice(PV[:6]) for _ in range(L)]
        c_hi = [min(1.0, a + rng.choice([0.0, 0.05, 0.3])) for a in c_lo]
        stub = Stub(xs, cdf={t: c_lo, u: c_hi})
        if "within" not in bt:
            stub.cdf[t] = c_lo if bt.startswith("above") else c_hi
        obsP, pp = verif.metric.get_p(stub, 0, None, None, iv)
        cl = stub.cdf[round(float(iv.lower), 6)] if not math.isinf(iv.lower) else [0.0] * L
        cu = stub.cdf[round(float(iv.upper), 6)] if not math.isinf(iv.upper) else [1.0] * L
        terms.append("vsum XF (map (fun p => get_p_prob XF %s (fst p) (snd p)) (combine %s %s))" % (ivt(iv), fl_list(cl), fl_list(cu)))
        exp.append(float(np.sum(pp)) if np.ndim(pp) else float(pp) * L)
        terms.append("vsum XF (map (get_p_obs XF %s) %s)" % (ivt(iv), fl_list(xs)))
        exp.append(float(np.sum(obsP)))
        for n in ("Spherical", "Ign0"):
            terms.append("%s_core XF %s %s" % (n, fl_list([float(x) for x in obsP]), fl_list([float(x) for x in np.broadcast_to(pp, (L,))])))
            exp.append(float(M[n].compute_single(stub, 0, None, None, iv)))
        p0 = cl if not math.isinf(iv.lower) else [0.0 * x for x in cu]
        p1 = cu if not math.isinf(iv.upper) else [0.0 * x + 1 for x in cl]
        terms.append("MarginalRatio_core XF %s %s %s %s" % (ivt(iv), fl_list(xs), fl_list(p0), fl_list(p1)))
        exp.append(float(M["MarginalRatio"].compute_single(stub, 0, None, None, iv)))
        # pinball loss and spread
        q = rng.choice([0.1, 0.25, 0.5, 0.9])
        qf = [rng.choice([0.0, 0.5, 1.0, 2.0, 3.0]) for _ in range(L)]
        qf2 = [a + rng.choice([0.0, 0.5, 2.0]) for a in qf]
        qiv = verif.interval.Interval(q, 0.95, True, True)
        st2 = Stub(xs, quant={q: qf, 0.95: qf2})
        terms.append("QuantileScore_core XF %s %s %s" % (ivt(qiv), fl_list(xs), fl_list(qf)))
        exp.append(float(M["QuantileScore"].compute_single(st2, 0, None, None, qiv)))
        terms.append("Spread_core XF %s %s" % (fl_list(qf), fl_list(qf2)))
        exp.append(float(M["Spread"].compute_single(st2, 0, None, None, qiv)))
        # coverage of the interval between two forecast quantiles, for every bin type; observations equal
        # to a quantile are frequent here (values are drawn from small sets)
        cbt = rng.choice(BTS)
        civ = verif.util.get_intervals(cbt, np.array([q, 0.95]))[0]
        qa = st2.quant[round(float(civ.lower), 6)] if not math.isinf(civ.lower) else qf      # array of the lower quantile level (unused when infinite)
        qb = st2.quant[round(float(civ.upper), 6)] if not math.isinf(civ.upper) else qf2
        terms.append("QuantileCoverage_core XF %s %s %s %s" % (ivt(civ), fl_list(xs), fl_list(qa), fl_list(qb)))
        exp.append(float(M["QuantileCoverage"].compute_single(st2, 0, None, None, civ)))
        exprs.append("[" + "; ".join(terms) + "]")
        expected.append(exp)
        descr.append({"obs_event": o, "prob": p, "bin_type": bt, "values": xs, "cdf_lower": c_lo, "cdf_upper": c_hi, "quantile": q,
                      "coverage_bin_type": cbt, "q_lower": qf, "q_upper": qf2})
    # evaluating one probabilistic metric must not change what another one returns afterwards (the arrays a metric
    # gets from Data.get_scores are cached there: a metric that writes into them corrupts every later score)
    for rep_ in range(6 if tier == "quick" else 40):
        nt_, nl_, ns_ = 2, 2, rng.randint(1, 3)
        cube = lambda vals: [[[rng.choice(vals) for _ in range(ns_)] for _ in range(nl_)] for _ in range(nt_)]
        spec = {"times": [0, 86400], "leads": [0.0, 6.0], "locs": [[i + 1, 0.0, 0.0, 0.0] for i in range(ns_)],
                "fields": {"obs": cube([0.0, 1.0, 2.5, 4.0]), "fcst": cube([1.0, 2.0])}}
        t1, t2 = 1.0, 2.5
        lo = np.array(cube(PV[1:6]), float)
        hi = np.minimum(1.0, lo + np.array(cube([0.0, 0.05, 0.3]), float))

        def fresh_data():
            inp = datagen.mem_input(spec, "p")
            inp.thresholds = np.array([t1, t2])
            inp.threshold_scores = np.stack([lo, hi], axis=3)
            return verif.data.Data([inp])
        bt = rng.choice(BTS)
        iv = verif.util.get_intervals(bt, np.array([t1, t2]))[0]
        names2 = ["Bs", "Bss", "Ign0", "Spherical", "MarginalRatio", "BsRel"]
        alone = {}
        for n2 in names2:
            try:
                alone[n2] = float(M[n2].compute(fresh_data(), 0, verif.axis.No(), iv)[0])
            except Exception as e:
                alone[n2] = "exception %s" % type(e).__name__
        for n1 in names2:
            dshared = fresh_data()
            try:
                M[n1].compute(dshared, 0, verif.axis.No(), iv)
            except Exception:
                continue
            for n2 in names2:
                nf_extra = 1
                try:
                    v2 = float(M[n2].compute(dshared, 0, verif.axis.No(), iv)[0])
                except Exception as e:
                    v2 = "exception %s" % type(e).__name__
                a2 = alone[n2]
                same = (v2 == a2) if isinstance(v2, str) or isinstance(a2, str) else close(v2, a2, 1e-12)
                if not same:
                    out.violation("metric-side-effect:%s" % n1.lower(), "-b %s: after evaluating %s on a dataset, %s returns %r; evaluated first it returns %r "
                                  "(the metric altered the arrays cached in the dataset)" % (bt, n1, n2, v2, a2),
                                  {"bin_type": bt, "first": n1, "then": n2, "obs": spec["fields"]["obs"], "cdf_at_1": lo.tolist(), "cdf_at_2.5": hi.tolist()})
                    break
    # a slice without any valid case gives NaN for every probabilistic metric (never a number), through the real dataset
    for bt_ in BTS:
        spec_ = {"times": [0, 86400, 172800], "leads": [0.0], "locs": [[1, 0.0, 0.0, 0.0], [2, 0.0, 0.0, 0.0]],
                 "fields": {"obs": [[[None, None]], [[2.0, 0.5]], [[1.0, None]]], "fcst": [[[1.0, 1.0]], [[2.0, 2.0]], [[0.0, 3.0]]]}}
        inp_ = datagen.mem_input(spec_, "m")
        inp_.thresholds = np.array([1.0, 2.5])
        inp_.threshold_scores = np.stack([np.full((3, 1, 2), 0.25), np.full((3, 1, 2), 0.75)], axis=3)
        d_ = verif.data.Data([inp_])
        iv_ = verif.util.get_intervals(bt_, np.array([1.0, 2.5]))[0]
        for n_ in ("Bs", "BsUnc", "Bss", "BsRel", "BsRes", "Ign0", "Spherical", "MarginalRatio"):
            try:
                v_ = M[n_].compute(d_, 0, verif.axis.Time(), iv_)
            except Exception as e:
                out.violation("empty-slice-exception:%s" % n_.lower(), "%s -b %s along time with a day without observations raises %s: %s" % (n_, bt_, type(e).__name__, e),
                              {"metric": n_, "bin_type": bt_, "dataset": spec_})
                continue
            if not math.isnan(float(v_[0])):
                out.violation("empty-slice-number:%s" % n_.lower(), "%s -b %s: the day whose observations are all missing scores %r instead of NaN" % (n_, bt_, float(v_[0])),
                              {"metric": n_, "bin_type": bt_, "dataset": spec_})
    # quantile-based scores through the real dataset.  A level the file stores is read from the file, also when the
    # requested level differs from the stored one by rounding only (single-precision coordinate, computed level) and
    # an ensemble is present as well; every score is taken over the cases where ALL the fields it needs are present.
    import scipy.stats
    for rnd in range(8 if tier == "quick" else 80):
        nt, nl = rng.randint(2, 4), rng.randint(1, 3)

        def cube3(gen):
            return [[[gen() for _ in range(nl)]] for _ in range(nt)]
        spec_q = {"times": [86400 * k for k in range(nt)], "leads": [0.0], "locs": [[k + 1, 0.0, 0.0, 0.0] for k in range(nl)],
                  "fields": {"obs": cube3(lambda: None if rng.random() < 0.2 else rng.choice([0.0, 1.0, 2.0, 3.5, 5.0])),
                             "fcst": cube3(lambda: None if rng.random() < 0.15 else rng.choice([0.5, 1.0, 2.5, 4.0]))}}
        for k in range(3):
            spec_q["fields"]["ens%d" % k] = cube3(lambda: 100.0 + rng.choice([0.0, 5.0, 20.0]))      # far from the stored quantiles
        levels = [0.1, 0.3, 0.9]
        stored = [float(np.float32(l)) for l in levels] if rnd % 2 == 0 else list(levels)
        base = np.array(cube3(lambda: rng.choice([0.0, 1.0, 2.0, 3.0])), float).reshape(nt, 1, nl)
        qarr = np.stack([base, base + 0.5, base + np.array(cube3(lambda: rng.choice([1.0, 2.0, 6.0])), float).reshape(nt, 1, nl)], axis=3)
        for _ in range(rng.randint(0, 2)):
            qarr[rng.randrange(nt), 0, rng.randrange(nl), rng.randrange(3)] = NAN
        if rng.random() < 0.6:       # stored quantiles that cross (upper below lower) in one case: the spread is upper - lower, negative there
            a_, b_ = rng.randrange(nt), rng.randrange(nl)
            qarr[a_, 0, b_, 2] = qarr[a_, 0, b_, 0] - rng.choice([0.5, 1.0, 2.0])
        inp_q = datagen.mem_input(spec_q, "q")
        inp_q.quantiles = np.array(stored)
        inp_q.quantile_scores = qarr
        d_q = verif.data.Data([inp_q])
        O = inp_q.obs.reshape(nt, nl)
        Fc = inp_q.fcst.reshape(nt, nl)
        Q = {0: qarr[:, 0, :, 0], 1: qarr[:, 0, :, 1], 2: qarr[:, 0, :, 2]}
        for (lo_req, li), (hi_req, hi_i) in (((1 - 0.9, 0), (0.9, 2)), ((0.1, 0), (0.9, 2)), ((0.1 * 3, 1), (0.9, 2)), ((0.1, 0), (0.3, 1))):
            iv_q = verif.interval.Interval(lo_req, hi_req, True, True)
            for axis_, slices in ((verif.axis.No(), [np.ones((nt, nl), bool)]),
                                  (verif.axis.Time(), [np.arange(nt)[:, None] == k for k in range(nt)])):
                slices = [np.broadcast_to(m_, (nt, nl)) for m_ in slices]

                def ref(kind, m_):
                    if kind == "Spread":
                        ok = m_ & ~np.isnan(Q[li]) & ~np.isnan(Q[hi_i])
                        return float(np.mean(Q[hi_i][ok] - Q[li][ok])) if ok.any() else NAN
                    if kind == "SpreadSkillRatio":
                        ok = m_ & ~np.isnan(Q[li]) & ~np.isnan(Q[hi_i]) & ~np.isnan(O) & ~np.isnan(Fc)
                        if not ok.any():
                            return NAN
                        sp = float(np.mean(Q[hi_i][ok] - Q[li][ok])) / (0.5 * (scipy.stats.norm.ppf(hi_req) - scipy.stats.norm.ppf(lo_req)))
                        rm = math.sqrt(float(np.mean((O[ok] - Fc[ok]) ** 2)))
                        return sp / rm if rm != 0 else (NAN if sp == 0 else math.copysign(math.inf, sp))
                    if kind == "QuantileScore":
                        ok = m_ & ~np.isnan(Q[li]) & ~np.isnan(O)
                        e_ = O[ok] - Q[li][ok]
                        return float(np.mean(e_ * (lo_req - (e_ < 0)))) if ok.any() else NAN
                    ok = m_ & ~np.isnan(Q[li]) & ~np.isnan(Q[hi_i]) & ~np.isnan(O)
                    return float(np.mean((O[ok] >= Q[li][ok]) & (O[ok] <= Q[hi_i][ok]))) if ok.any() else NAN
                for kind in ("Spread", "SpreadSkillRatio", "QuantileScore", "QuantileCoverage"):
                    mobj = getattr(verif.metric, kind)()
                    try:
                        with np.errstate(all="ignore"):
                            got_ = np.asarray(mobj.compute(d_q, 0, axis_, iv_q), float).flatten()
                    except datagen.ImplExit as e:
                        out.violation("stored-quantile-refused:%s" % kind.lower(), "%s with quantile levels %r, %r: the file stores levels %r, yet the run stops with an error (%s)" % (kind, lo_req, hi_req, stored, e),
                                      {"metric": kind, "requested_levels": [lo_req, hi_req], "stored_levels": stored, "dataset": spec_q, "quantile_columns": qarr.tolist()})
                        continue
                    except Exception as e:
                        out.violation("quantile-metric-exception:%s" % kind.lower(), "%s raised %s: %s" % (kind, type(e).__name__, e),
                                      {"metric": kind, "requested_levels": [lo_req, hi_req], "stored_levels": stored, "dataset": spec_q, "quantile_columns": qarr.tolist()})
                        continue
                    want_ = [ref(kind, m_) for m_ in slices]
                    for k_, (g_, w_) in enumerate(zip(got_, want_)):
                        if not close(float(g_), w_, 1e-9):
                            out.violation("quantile-definition:%s" % kind.lower(), "%s for levels (%r, %r) along %s, slice %d: got %r; the definition on the file's quantile columns "
                                          "(stored levels %r) over the cases where all needed values are present gives %r" % (kind, lo_req, hi_req, axis_.name(), k_, float(g_), stored, w_),
                                          {"metric": kind, "requested_levels": [lo_req, hi_req], "stored_levels": stored, "dataset": spec_q, "quantile_columns": qarr.tolist(), "axis": axis_.name(), "slice": k_})
                            break
    # zero resolution with varying observations (every probability in one bin): the resolution term is 0, hence BssRes = 0 / unc = 0,
    # and the skill score is BssRes - BssRel
    for rep_ in range(4 if tier == "quick" else 30):
        n_ = rng.randint(4, 9)
        ob_ = [rng.choice([0.0, 1.0]) for _ in range(n_)]
        if len(set(ob_)) == 1:
            ob_[0] = 1.0 - ob_[0]
        pc_ = rng.choice([0.02, 0.31, 0.58, 0.97])
        st_ = Stub([2.0 * o_ for o_ in ob_], cdf={1.0: [1.0 - pc_] * n_})
        iv_ = verif.interval.Interval(1.0, np.inf, False, False)
        try:
            vals_ = {n2: float(M[n2].compute_single(st_, 0, None, None, iv_)) for n2 in ("BsRes", "BssRes", "BssRel", "Bss", "BsUnc")}
        except Exception as e:
            out.violation("zero-resolution-exception", "%r" % (e,), {"obs_event": ob_, "prob": pc_})
            continue
        bad_ = []
        if abs(vals_["BsRes"]) > 1e-12 or not (abs(vals_["BssRes"]) <= 1e-12):
            bad_.append("BsRes = %r, BssRes = %r (expected 0 and 0)" % (vals_["BsRes"], vals_["BssRes"]))
        if not close(vals_["Bss"], vals_["BssRes"] - vals_["BssRel"], 1e-9):
            bad_.append("Bss = %r but BssRes - BssRel = %r" % (vals_["Bss"], vals_["BssRes"] - vals_["BssRel"]))
        if bad_:
            out.violation("zero-resolution", "events %r, every forecast probability %r (one bin): %s" % (ob_, pc_, "; ".join(bad_)), {"obs_event": ob_, "prob": pc_})
    # PIT at a discrete probability mass of the variable (x0 / x1): the value is drawn from [0, pit] when the observation equals
    # x0, from [pit, 1] when it equals x1, and is the stored value everywhere else
    import verif.variable
    for x0_, x1_ in ((0.0, None), (None, 10.0), (0.0, 10.0), (0.0, 0.0)):
        for rep_ in range(3 if tier == "quick" else 20):
            n_ = 12
            ob_ = [rng.choice([0.0, 10.0, 2.5, 5.0, None]) for _ in range(n_)]
            pi_ = [rng.choice([0.125, 0.25, 0.5, 0.75, 0.875, 0.0, 1.0]) for _ in range(n_)]
            spec_p = {"times": [86400 * k for k in range(n_)], "leads": [0.0], "locs": [[1, 0.0, 0.0, 0.0]],
                      "fields": {"obs": [[[v]] for v in ob_], "fcst": [[[1.0]] for _ in ob_], "pit": [[[v]] for v in pi_]}}
            inp_p = datagen.mem_input(spec_p, "pit")
            inp_p.variable = verif.variable.Variable("Precip", "mm", x0=x0_, x1=x1_)
            try:
                got_p = np.asarray(verif.data.Data([inp_p]).get_scores(verif.field.Pit(), 0), float).flatten()
            except Exception as e:
                out.violation("pit-mass-exception", "Pit field with x0=%r x1=%r raised %s: %s" % (x0_, x1_, type(e).__name__, e), {"x0": x0_, "x1": x1_, "obs": ob_, "pit": pi_})
                continue
            for o_, p_, g_ in zip(ob_, pi_, got_p):
                if o_ is None:
                    continue
                at0, at1 = x0_ is not None and o_ == x0_, x1_ is not None and o_ == x1_
                lo_, hi_ = (0.0 if at0 else p_), (1.0 if at1 else p_)
                if not (lo_ - 1e-12 <= g_ <= hi_ + 1e-12):
                    out.violation("pit-mass", "variable with x0=%r x1=%r: a case with observation %r and stored PIT %r gets PIT %r; it must lie in [%r, %r]" % (x0_, x1_, o_, p_, float(g_), lo_, hi_),
                                  {"x0": x0_, "x1": x1_, "obs": ob_, "pit": pi_})
                    break
    # ensemble-derived probabilities and quantiles through Data
    nens = 40 if tier == "quick" else 400
    ens_cases = []
    for _ in range(nens):
        nm = rng.randint(1, 6)
        members = [None if rng.random() < 0.15 else rng.choice([0.0, 1.0, 2.0, 2.0, 3.5, 5.0, -1.0]) for _ in range(nm)]
        if rng.random() < 0.08:
            members = [None] * nm
        t = rng.choice([0.0, 1.0, 2.0, 3.0, 10.0])
        q = rng.choice([0.0, 0.1, 0.25, 0.5, 0.75, 0.9, 1.0])
        spec = {"times": [0], "leads": [0.0], "locs": [[1, 0.0, 0.0, 0.0]], "fields": {"obs": [[[1.0]]], "fcst": [[[1.0]]]}}
        inp = datagen.mem_input(spec, "ens")
        inp.ensemble = np.array([[[[NAN if m is None else m for m in members]]]], float)
        d = verif.data.Data([inp])
        try:
            pt = float(d.get_scores(verif.field.Threshold(t), 0, verif.axis.All())[0, 0, 0])
        except Exception as e:
            out.violation("ensemble-threshold-exception", "Threshold(%r) from ensemble %r raised %r" % (t, members, e), {"members": members, "threshold": t})
            continue
        d2 = verif.data.Data([inp])
        try:
            qv = float(d2.get_scores(verif.field.Quantile(q), 0, verif.axis.All())[0, 0, 0])
        except Exception as e:
            qv = None
        ens_cases.append((members, t, q, pt, qv))
        ml = fl_list([NAN if m is None else m for m in members])
        exprs.append("[thr_from_ens XF %s %s; quantile_from_ens XF %s %s]" % (fl(t), ml, fl(q), ml))
        expected.append([pt, NAN if qv is None else qv])
        descr.append({"members": members, "threshold": t, "quantile": q})
    disagreements = []
    try:
        got = common.coq_eval_float_lists(
            "From VF Require Import Base.Num Base.Vec Base.Event Gen.Gen_interval Gen.Gen_prob Model.Brier Model.Render.",
            exprs, "c08_%d" % seed, chunk=40, timeout=900)
        for g, e, dsc in zip(got, expected, descr):
            tol = 1e-6 if "members" in dsc else 1e-9       # ensemble probabilities are computed in float32
            bad = [(i, g[i], e[i]) for i in range(min(len(g), len(e))) if not close(g[i], e[i], tol)]
            if bad or len(g) != len(e):
                disagreements.append({"case": dsc, "differs(index,model,impl)": bad[:4]})
    except RuntimeError as ex:
        out.broken_obligation("tie:Gen_prob/Model.Brier", str(ex)[-1500:])
    if disagreements:
        out.broken_obligation("tie:translation-validation", "%d of %d cases differ; first: %r" % (len(disagreements), len(exprs), disagreements[0]))
    # ---- falsifier ------------------------------------------------------------------------------
    nf = 0
    distinct = set()
    samples = []
    # ten equal bins; the edges are the doubles of np.linspace(0, 1, 11) (0.3 sits just BELOW the edge 0.30000000000000004:
    # which side a value exactly on an edge falls is a rounding matter, outside the property), top edge 1.001
    edges = [float(x) for x in np.linspace(0, 1, 11)[:10]] + [1.001]
    for dsc, exp in zip(descr[:ncase], expected[:ncase]):
        o, p = dsc["obs_event"], dsc["prob"]
        n = len(o)
        nf += 1
        distinct.add((tuple(o), tuple(p)))
        bs = sum((a - b) ** 2 for a, b in zip(p, o)) / n
        ob = sum(o) / n
        unc = sum((ob - a) ** 2 for a in o) / n
        # binned terms with an independent implementation
        rel = res = 0.0
        for i in range(10):
            idx = [j for j in range(n) if edges[i] <= p[j] < edges[i + 1] or (i == 9 and p[j] == 1.0)]
            if idx:
                om = sum(o[j] for j in idx) / len(idx)
                rel += sum((p[j] - om) ** 2 for j in idx)
                res += len(idx) * (om - ob) ** 2
        rel, res = rel / n, res / n
        names = ["bs", "bsunc", "bss", "bsrel", "bsres", "bssrel", "bssres"]
        want = [bs, unc, (NAN if unc == 0 else (unc - bs) / unc), rel, res, (NAN if unc == 0 else rel / unc), (NAN if unc == 0 else res / unc)]
        for nm, g, w in zip(names, exp[:7], want):
            if not close(g, w, 1e-9):
                out.violation("definition:%s" % nm, "%s(obs=%r, p=%r) = %r, definition gives %r" % (nm, o, p, g, w), {"metric": nm, "obs": o, "p": p})
        # coverage of the quantile interval: the documented open/closed ends per bin type
        cbt, xs_, ql, qu = dsc["coverage_bin_type"], dsc["values"], dsc["q_lower"], dsc["q_upper"]
        lo_closed = cbt in ("above=", "=within", "=within=")
        hi_closed = cbt in ("below=", "within=", "=within=")
        def inside(x, a, b):
            if cbt.startswith("below"):
                return x <= a if hi_closed else x < a
            if cbt.startswith("above"):
                return a <= x if lo_closed else a < x
            return (a <= x if lo_closed else a < x) and (x <= b if hi_closed else x < b)
        wantc = sum(1 for x, a, b in zip(xs_, ql, qu) if inside(x, a, b)) / len(xs_)
        if not close(exp[-1], wantc, 1e-9):
            out.violation("definition:quantilecoverage:%s" % cbt, "QuantileCoverage with -b %s: obs=%r lower quantile=%r upper quantile=%r gives %r, "
                          "the fraction of observations inside the interval is %r" % (cbt, xs_, ql, qu, exp[-1], wantc),
                          {"metric": "quantilecoverage", "bin_type": cbt, "obs": xs_, "q_lower": ql, "q_upper": qu})
        # Murphy decomposition when forecasts take a single value per bin
        single = all(len({p[j] for j in range(n) if edges[i] <= p[j] < edges[i + 1]}) <= 1 for i in range(10))
        if single and not close(exp[0], exp[3] - exp[4] + exp[1], 1e-9):
            out.violation("brier-decomposition", "BS %r != REL %r - RES %r + UNC %r for single-valued bins (obs=%r p=%r)" % (exp[0], exp[3], exp[4], exp[1], o, p),
                          {"obs": o, "p": p})
        # complement
        bs_c = float(M["Bs"].compute_from_obs_fcst(np.array([1 - a for a in o]), np.array([1 - a for a in p])))
        if not close(bs_c, exp[0], 1e-9):
            out.violation("brier-complement", "BS of the complement %r differs from BS %r" % (bs_c, exp[0]), {"obs": o, "p": p})
        if len(samples) < 3:
            samples.append({"obs": o, "p": p})
    for members, t, q, pt, qv in ens_cases:
        nf += 1
        present = [m for m in members if m is not None]
        want = NAN if not present else sum(1 for m in present if m <= t) / len(present)
        distinct.add(("ens", tuple(members), t, q))
        if not close(pt, want, 1e-6):
            out.violation("ensemble-probability", "P(X<=%r) from members %r is %r, fraction of present members at or below is %r" % (t, members, pt, want),
                          {"members": members, "threshold": t})
        if qv is not None and present and len(present) == len(members) and not math.isnan(qv):
            if not (min(present) - 1e-9 <= qv <= max(present) + 1e-9):
                out.violation("ensemble-quantile-range", "quantile %r of %r is %r, outside the ensemble range" % (q, members, qv), {"members": members, "quantile": q})
    # event probability against the documented events, all bin types
    for bt in BTS:
        for (a, b) in [(0.25, 0.75), (0.0, 1.0), (0.3, 0.3)]:
            t, u = 1.0, 2.5
            iv = verif.util.get_intervals(bt, np.array([t, u]))[0]
            stub = Stub([0.0, 1.0, 2.5, 4.0], cdf={t: [a] * 4, u: [b] * 4})
            if "within" not in bt:
                stub.cdf[t] = [a] * 4
            obsP, pp = verif.metric.get_p(stub, 0, None, None, iv)
            want = {"below": a, "below=": a, "above": 1 - a, "above=": 1 - a}.get(bt, b - a)
            nf += 1
            if not close(float(np.broadcast_to(pp, (4,))[0]), want):
                out.violation("event-probability:%s" % bt, "get_p for -b %s gives %r, documented %r" % (bt, pp, want), {"bin_type": bt, "cdf": [a, b]})
    # PIT statistics against an independent histogram
    for _ in range(20 if tier == "quick" else 200):
        L = rng.randint(1, 30)
        pit = [rng.choice([0.0, 0.05, 0.1, 0.33, 0.5, 0.77, 0.9, 1.0, rng.random()]) for _ in range(L)]
        nf += 1
        nb = 10
        counts = [0] * nb
        for v in pit:
            k = min(int(v * nb + 1e-12), nb - 1) if v < 1 else nb - 1
            # np.histogram with edges linspace(0,1,11): half-open bins, last one closed
            ed = np.linspace(0, 1, nb + 1)
            k = max(i for i in range(nb) if ed[i] <= v) if v < 1 else nb - 1
            counts[k] += 1
        fr = [c / float(L) for c in counts]
        want = math.sqrt(sum((f - 1.0 / nb) ** 2 for f in fr) / nb)
        got1 = float(verif.metric.PitHistDev.deviation(np.array(pit), nb))
        if not close(got1, want, 1e-9):
            out.violation("pit-deviation", "PitHistDev.deviation(%r) = %r, histogram definition gives %r" % (pit, got1, want), {"pit": pit})
    return {
        "evaluations": sum(len(e) for e in expected) + nf,
        "distinct_nontrivial": len(distinct),
        "rule": "observation/probability vectors of length 1-10 over {0,.05,.1,.25,.3,.5,.7,.9,.95,.999,1} (bin edges, exact 0 and 1, "
                "constant observations 20%), all 8 bin types with CDF columns, pinball/spread on quantile columns, ensembles of 1-6 "
                "members with 15% missing members and 8% all-missing; distinct = (obs, p) vectors and (members, threshold, level)",
        "samples": samples or [descr[0]],
        "programs": len(exprs),
        "disagreements_checked": len(exprs),
        "tie_disagreements": len(disagreements),
        "falsifier_evaluations": nf,
    }
