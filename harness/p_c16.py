"""C16 -- diagrams draw the quantities their definitions prescribe.
Tie B: for each modelled diagram verif.driver.run is executed on generated files (2-3 inputs with
different missing cells, so that 'common valid cases' matters); the figure handed to savefig is read
back (Line2D data, bar heights, fill polygons) and compared with the model of the diagram's defining
statistic (coq/Model/Diagrams.v, float instance, vm_compute) evaluated on the arrays the real Data
object returns for the same files.  Standard line plots are compared with the -type csv table of the
same command (which C12 ties to the Data model).  Falsifier: binning probes (values exactly on the
outer bin edges) look for valid cases that fall in no bin."""
import contextlib
import io
import math
import os
import random
import shutil
import sys
import tempfile

import numpy as np

import common
from common import fl, fl_list
import p_c17

GEN_PREFIXES = ["verif/interval.py", "verif/util.py", "verif/metric.py"]
EXTRA_TARGETS = ["Model/Rank.vo", "Model/Diagrams.vo", "Gen/Gen_interval.vo", "Gen/Gen_contingency.vo", "Gen/Gen_prob.vo", "Model/Brier.vo", "Model/Render.vo"]
ASSUMPTIONS = ["the arrays delivered by verif.data.Data.get_scores are taken from the real object (their correctness is C01-C15)",
               "values are multiples of 1/4 (1/16 for PIT, 1/8 for probabilities) so sums are exact in binary floating point",
               "not modelled: droc, murphy, economicvalue, bsdecomp, igncontrib, fss, autocorr/autocov, "
               "against, invreliability, meteo, rank/impact views, maps, the quantile lines of scatter"]
NAN = float("nan")
PRE = "From VF Require Import Base.Num Base.Vec Base.Event Gen.Gen_interval Gen.Gen_contingency Gen.Gen_prob Model.Brier Model.Diagrams.\nNotation X := XF."
QS = [0.1, 0.25, 0.5, 0.75, 0.9]
PS = [1, 3, 5]


def write_file(path, rng, nt, nl, ns, miss, blanks=()):
    """blanks: (column name, lead index) pairs whose cells are missing in every row of that lead time"""
    cols = ["obs", "fcst"] + ["p%g" % t for t in PS] + ["q%g" % q for q in QS] + ["pit"]
    hdr = "unixtime leadtime location lat lon altitude " + " ".join(cols)
    with open(path, "w") as f:
        f.write(hdr + "\n")
        for t in range(nt):
            for l in range(nl):
                for s in range(ns):
                    o = rng.randint(0, 32) / 4.0
                    fc = min(8.0, max(0.0, o + rng.randint(-8, 8) / 4.0))
                    ps = sorted(rng.choice([0, 0, 1, 2, 3, 4, 5, 6, 7, 8, 8]) / 8.0 for _ in PS)
                    qs = sorted(min(10.0, max(-2.0, fc + rng.randint(-8, 8) / 4.0)) for _ in QS)
                    pit = rng.choice([0, 0, 1, 3, 5, 8, 8, 10, 13, 15, 16, 16]) / 16.0
                    row = [1325376000 + 86400 * t, l * 6, 10 + s, 60 + s, 10 + 2 * s, 100 * s]
                    vals = [o, fc] + ps + qs + [pit]
                    vals = ["-999" if (rng.random() < miss or (c, l) in blanks) else repr(v) for c, v in zip(cols, vals)]
                    f.write(" ".join(str(x) for x in row) + " " + " ".join(vals) + "\n")


class Ctx(object):
    pass


def fvec(a):
    return fl_list([float(x) for x in np.asarray(a, float).flatten()])


def fvecs(rows):
    return "[" + "; ".join(fvec(r) for r in rows) + "]"


def bools(a):
    return "[" + "; ".join("true" if x else "false" for x in a) + "]"


def xy_expr(pair_expr):
    """Coq expr of type (list float * list float) -> concatenated list"""
    return "(let r := %s in (fst r ++ snd r)%%list)" % pair_expr


def lines_of(ax, labels):
    """the data lines of an axes, by legend label, in drawing order"""
    return [l for l in ax.get_lines() if l.get_label() in labels]


def f64(a):
    return [float(x) for x in np.ma.filled(np.ma.asarray(a, float), NAN).flatten()]


def explore(out, tier, seed, facts, replay=None):
    tmp = tempfile.mkdtemp(prefix="verif_c16_", dir=os.environ.get("VERIF_SCRATCH") or None)
    sys.path.insert(0, common.REPO)
    try:
        return _explore(out, tier, seed, facts, replay, tmp)
    finally:
        shutil.rmtree(tmp, ignore_errors=True)


def _explore(out, tier, seed, facts, replay, tmp):
    import verif.data
    import verif.input
    import verif.field
    import verif.axis
    import verif.metric
    rng = random.Random(seed * 2713 + 16)
    rounds = 3 if tier == "quick" else 25
    runner = p_c17.Runner(tmp)
    exprs, pend = [], []          # Coq expression, (key, description, observed floats, replay)
    stats = {}
    csv_compared = 0

    def add(key, what, expr, observed, rep):
        exprs.append(expr)
        pend.append((key, what, f64(observed), rep))
        stats[key.split(":")[0]] = stats.get(key.split(":")[0], 0) + 1

    try:
        for rd in range(rounds):
            F = rng.choice([2, 2, 3])
            nt, nl, ns = rng.randint(3, 5), rng.randint(2, 4), rng.randint(2, 3)
            files = []
            # all-missing slices, the same in every input of the round (missing values are propagated across inputs)
            round_blanks = []
            if rng.random() < 0.7 and nl >= 2:
                la, lb = rng.sample(range(nl), 2)
                round_blanks += [("q0.1", la), ("q0.9", lb)]
            if rng.random() < 0.5 and nl >= 3:
                round_blanks.append(("obs", 1))
            for k in range(F):
                fn = os.path.join(tmp, "r%d_%s.txt" % (rd, "abc"[k]))
                write_file(fn, rng, nt, nl, ns, rng.choice([0.0, 0.05, 0.12]), tuple(round_blanks))
                files.append(fn)
            names = [os.path.basename(f) for f in files]
            with common.quiet():
                data = verif.data.Data([verif.input.get_input(f) for f in files])
            OBS, FC = verif.field.Obs(), verif.field.Fcst()
            NO = verif.axis.No()

            def run(args, ext="png"):
                ofile = os.path.join(tmp, "r%d_out.%s" % (rd, ext))
                argv = ["verif"] + files + args + ["-f", ofile]
                st, info = runner.run(argv)
                rep = {"argv": ["verif"] + names + args, "files": {n: open(f).read() for n, f in zip(names, files)}}
                if st != "ok":
                    out.violation("run:%s:%s" % (args[1], st), "verif %s ends with %s %s" % (" ".join(args), st, info), rep)
                    return None, rep, ofile
                return runner.cap.get("fig"), rep, ofile

            # ---- standard line plots against the csv table of the same command ---------------------------
            std = rng.sample([("mae", []), ("rmse", []), ("bias", []), ("corr", []), ("ets", ["-r", "2,4"]), ("stderror", []),
                              ("pc", ["-r", "3"]), ("mae", ["-agg", "median"])], 3)
            for si, (metric, extra) in enumerate(std):
                axis = rng.choice(["leadtime", "location", "lat", "elev", "leadtimeday"]) if "-r" not in extra or rng.random() < 0.6 else "threshold"
                if si == 0:
                    axis = "leadtime"           # one lead-time plot per round, also drawn with -acc below
                args = ["-m", metric, "-x", axis] + extra
                fig, rep, _ = run(args)
                if fig is None:
                    continue
                fcsv, repc, ofile = run(args + ["-type", "csv"], ext="csv") if False else (None, None, None)
                ocsv = os.path.join(tmp, "r%d_tab.csv" % rd)
                st, info = runner.run(["verif"] + files + args + ["-type", "csv", "-f", ocsv])
                if st != "ok" or not os.path.exists(ocsv):
                    continue
                rows = [r.split(",") for r in open(ocsv).read().strip().split("\n")]
                ncol = len(rows[0]) - F
                table = np.array([[float(v) for v in r[ncol:]] for r in rows[1:]])
                ls = lines_of(fig.axes[0], names)
                stats["standard"] = stats.get("standard", 0) + 1
                if len(ls) != F or [l.get_label() for l in ls] != names:
                    out.violation("standard:series", "verif %s: the plot has lines %r, expected one per input in order %r" % (" ".join(args), [l.get_label() for l in ls], names), rep)
                    continue
                for k, l in enumerate(ls):
                    y = f64(l.get_ydata())
                    if not common.close_lists(y, [float(v) for v in table[:, k]], 1e-5):
                        out.violation("standard:%s" % metric, "verif %s: line %d (%s) has y=%s but the csv table of the same command has %s" % (
                            " ".join(args), k, names[k], y[:8], [float(v) for v in table[:, k]][:8]), rep)
                        break
                else:
                    csv_compared += 1
                # -acc: the plotted curve is the running sum of the scores, a missing score counting as 0
                if axis in ("leadtime", "leadtimeday"):
                    figa, repa, _ = run(args + ["-acc"])
                    if figa is not None:
                        la = lines_of(figa.axes[0], names)
                        for k, l in enumerate(la[:F]):
                            run_sum, want = 0.0, []
                            for v in table[:, k]:
                                run_sum += 0.0 if math.isnan(v) else float(v)
                                want.append(run_sum)
                            if not common.close_lists(f64(l.get_ydata()), want, 1e-5):
                                out.violation("standard:acc", "verif %s -acc: line %d shows %s, the running sum of the scores %s (missing = 0) is %s" % (
                                    " ".join(args), k, f64(l.get_ydata())[:8], [float(v) for v in table[:, k]][:8], want[:8]), repa)
                                break
                        stats["standard-acc"] = stats.get("standard-acc", 0) + 1

            # ---- -hist and -sort ---------------------------------------------------------------------------
            fld = rng.choice(["obs", "fcst"])
            edges = sorted(rng.sample([0, 1, 2, 3, 4, 5, 6, 7, 8], rng.randint(3, 6)))
            fig, rep, _ = run(["-m", fld, "-hist", "-r", ",".join(str(e) for e in edges)])
            if fig is not None:
                ls = lines_of(fig.axes[0], names)
                if len(ls) != F:
                    out.violation("hist:series", "-hist: %d lines for %d inputs" % (len(ls), F), rep)
                for k, l in enumerate(ls[:F]):
                    v = data.get_scores(verif.field.get(fld), k, NO)
                    add("hist", "verif -m %s -hist -r %s, input %d" % (fld, edges, k),
                        "hist_percent X (flat_map (fun o => match o with Some i => [i] | None => [] end) (get_intervals X WithinEq %s)) %s" % (fvec(edges), fvec(v)),
                        l.get_ydata(), rep)
            fig, rep, _ = run(["-m", fld, "-sort"])
            if fig is not None:
                ls = lines_of(fig.axes[0], names)
                for k, l in enumerate(ls[:F]):
                    v = data.get_scores(verif.field.get(fld), k, NO)
                    add("sort", "verif -m %s -sort, input %d" % (fld, k), "(sorted X %s ++ percent_axis X %d)%%list" % (fvec(v), len(v)),
                        list(l.get_xdata()) + list(l.get_ydata()), rep)

            # ---- obsfcst: lines and shaded bands -------------------------------------------------------------
            axn = rng.choice(["leadtime", "location"])
            axis = verif.axis.get(axn)
            nq = rng.choice([0, 2, 4, 4])
            qsel = {0: [], 2: [0.1, 0.9], 4: [0.1, 0.25, 0.75, 0.9]}[nq]
            args = ["-m", "obsfcst", "-x", axn] + (["-q", ",".join(str(q) for q in qsel)] if qsel else [])
            fig, rep, _ = run(args)
            if fig is not None:
                ax = fig.axes[0]
                n_ax = data.get_axis_size(axis)
                xs = data.get_axis_values(axis)
                lines = [l for l in ax.get_lines() if not l.get_label().startswith("_child") or True]
                lines = list(ax.get_lines())
                # drawing order: obs, then per input: fcst, its quantile lines
                want = []
                want.append(("obs", [np.mean(data.get_scores([OBS, FC], 0, axis, i)[0]) for i in range(n_ax)], None))
                cols = {}
                for f in range(F):
                    rows_ = [data.get_scores([FC, OBS], f, axis, i)[0] for i in range(n_ax)]
                    want.append(("fcst%d" % f, None, rows_))
                    cols[1 + f] = rows_
                    for qi, q in enumerate(qsel):
                        rows_q = [data.get_scores([verif.field.Quantile(q), OBS], f, axis, i)[0] for i in range(n_ax)]
                        want.append(("q%g_%d" % (q, f), None, rows_q))
                        cols[F + f + 1 + qi * F] = rows_q
                if len(lines) != len(want):
                    out.violation("obsfcst:series", "verif %s draws %d lines, expected %d (obs + per input: forecast and %d quantiles)" % (" ".join(args), len(lines), len(want), nq), rep)
                else:
                    for l, (nm, direct, rows_) in zip(lines, want):
                        if rows_ is None:
                            rows_ = [data.get_scores([OBS, FC], 0, axis, i)[0] for i in range(n_ax)]
                        add("obsfcst", "verif %s, line %s" % (" ".join(args), nm), "map (vmean X) %s" % fvecs(rows_), l.get_ydata(), rep)
                    # shaded bands: polygon between the i-th lowest and i-th highest quantile of the same input
                    polys = [p for p in ax.patches if hasattr(p, "get_xy")]
                    def has_point(c):
                        return any(len(r) > 0 and not np.all(np.isnan(r)) for r in cols[c])
                    drawn = [(f, i) for f in range(F) for i in range(nq // 2)
                             if has_point(F + f + 1 + i * F) or has_point(F + f + 1 + F * (nq - 1 - i))]
                    exp_n = len(drawn)
                    if len(polys) != exp_n:
                        out.violation("obsfcst:bands", "verif %s draws %d shaded bands, expected %d" % (" ".join(args), len(polys), exp_n), rep)
                    else:
                        k = 0
                        for f, i in drawn:
                            if True:
                                xy = np.asarray(polys[k].get_xy(), float)
                                if len(xy) > 1 and np.allclose(xy[0], xy[-1]):
                                    xy = xy[:-1]          # matplotlib closes the polygon
                                k += 1
                                add("obsfcst-band", "verif %s, band %d of input %d" % (" ".join(args), i, f),
                                    "(let b := obsfcst_band %d %d %d %d in let col := fun c => map (vmean X) (nth c %s []) in "
                                    "let p := fill_polygon X %s (col (fst b)) (col (snd b)) in (map fst p ++ map snd p)%%list)" % (
                                        F, f, nq, i,
                                        "[" + "; ".join(fvecs(cols[c]) if c in cols else "[]" for c in range(0, 1 + F + nq * F)) + "]",
                                        fvec(xs)),
                                    list(xy[:, 0]) + list(xy[:, 1]), rep)

            # ---- qq, scatter ---------------------------------------------------------------------------------------
            fig, rep, _ = run(["-m", "qq"])
            if fig is not None:
                ls = lines_of(fig.axes[0], names)
                for k, l in enumerate(ls[:F]):
                    o, fc = data.get_scores([OBS, FC], k, NO)
                    add("qq", "verif -m qq, input %d" % k, "(sorted X %s ++ sorted X %s)%%list" % (fvec(o), fvec(fc)), list(l.get_xdata()) + list(l.get_ydata()), rep)
                if len(ls) != F:
                    out.violation("qq:series", "-m qq: %d lines for %d inputs" % (len(ls), F), rep)
            fig, rep, _ = run(["-m", "scatter", "-simple"])
            if fig is not None:
                ls = lines_of(fig.axes[0], names)
                for k, l in enumerate(ls[:F]):
                    o, fc = data.get_scores([OBS, FC], k, NO)
                    if not (common.close_lists(f64(l.get_xdata()), f64(o)) and common.close_lists(f64(l.get_ydata()), f64(fc))):
                        out.violation("scatter", "verif -m scatter: the points of input %d are not its (obs, fcst) pairs" % k, rep)
                stats["scatter"] = stats.get("scatter", 0) + 1

            # ---- change -----------------------------------------------------------------------------------------
            use_r = rng.random() < 0.6
            ch_edges = sorted(rng.sample([-8, -4, -2, -1, 0, 1, 2, 4, 8], rng.randint(3, 6)))
            args = ["-m", "change"] + (["-r", ",".join(str(e) for e in ch_edges)] if use_r else [])
            fig, rep, _ = run(args)
            if fig is not None:
                ls = lines_of(fig.axes[0], names)
                o0 = data.get_scores([OBS, FC], 0)[0]
                if not use_r:
                    mx = float(np.nanmax(np.abs(o0[1:] - o0[:-1])))
                    ch_edges = list(np.linspace(-mx, mx, 20))
                for k, l in enumerate(ls[:F]):
                    o, fc = data.get_scores([OBS, FC], k)
                    add("change", "verif %s, input %d" % (" ".join(args), k),
                        xy_expr("change_curve X %s %s %s" % (fvec(ch_edges), fvecs([o[t] for t in range(o.shape[0])]), fvecs([fc[t] for t in range(o.shape[0])]))),
                        list(l.get_xdata()) + list(l.get_ydata()), rep)
                    # binning probe: every valid change should fall in one bin of the default edges
                    if not use_r:
                        ch = (o[1:] - o[:-1]).flatten()
                        ch = ch[~np.isnan(ch)]
                        pass
                if len(ls) != F:
                    out.violation("change:series", "-m change: %d lines for %d inputs" % (len(ls), F), rep)

            # ---- cond ---------------------------------------------------------------------------------------------
            c_edges = sorted(rng.sample([0, 1, 2, 3, 4, 5, 6, 7, 8], rng.randint(3, 5)))
            args = ["-m", "cond", "-r", ",".join(str(e) for e in c_edges)]
            fig, rep, _ = run(args)
            if fig is not None:
                ls = list(fig.axes[0].get_lines())
                ivs = "(flat_map (fun o => match o with Some i => [i] | None => [] end) (get_intervals X WithinEq %s))" % fvec(c_edges)
                for k in range(F):
                    if len(ls) < 2 * F:
                        out.violation("cond:series", "-m cond: %d lines for %d inputs" % (len(ls), F), rep)
                        break
                    o, fc = data.get_scores([OBS, FC], k, NO)
                    l1, l2 = ls[2 * k], ls[2 * k + 1]
                    msk = lambda v: "(map (fun x => is_some_true (iv_within X iv x)) %s)" % fvec(v)
                    add("cond", "verif %s, input %d, F|O" % (" ".join(args), k),
                        "(map (fun iv => vmedian X (vsel X %s %s)) %s ++ map (fun iv => cond_mean X iv %s %s) %s)%%list" % (msk(o), fvec(o), ivs, fvec(o), fvec(fc), ivs),
                        list(l1.get_xdata()) + list(l1.get_ydata()), rep)
                    add("cond", "verif %s, input %d, O|F" % (" ".join(args), k),
                        "(map (fun iv => cond_mean X iv %s %s) %s ++ map (fun iv => vmedian X (vsel X %s %s)) %s)%%list" % (fvec(fc), fvec(o), ivs, msk(fc), fvec(fc), ivs),
                        list(l2.get_xdata()) + list(l2.get_ydata()), rep)

            # ---- reliability, discrimination, roc (event: obs > t, probability 1 - cdf) ----------------------------
            t = rng.choice(PS)
            TH = verif.field.Threshold(t)
            use_q = rng.random() < 0.5
            p_edges = sorted(rng.sample([0, 0.125, 0.25, 0.375, 0.5, 0.625, 0.75, 0.875, 1], rng.randint(3, 6)))
            if rd == 0:
                use_q, p_edges = True, [0, 0.25, 0.5, 1]          # always once: fewer bins than the default, the last one ending at probability 1
            elif rd == 1:
                use_q, p_edges = True, [k_ / 12.0 for k_ in range(13)]      # and more bins than the default
            default_rel = [0, 0.05, 0.15, 0.25, 0.35, 0.45, 0.55, 0.65, 0.75, 0.85, 0.95, 1]
            for diag in ("reliability", "discrimination", "roc"):
                args = ["-m", diag, "-r", str(t)] + (["-q", ",".join(str(e) for e in p_edges)] if use_q else [])
                fig, rep, _ = run(args)
                if fig is None:
                    continue
                ax = fig.axes[0]
                for k in range(F):
                    o, cdf = data.get_scores([OBS, TH], k, NO)
                    ev = o > t
                    p = 1 - cdf
                    if diag == "reliability":
                        ed = p_edges if use_q else default_rel
                        ls = lines_of(ax, names)
                        if len(ls) != F:
                            out.violation("reliability:series", "-m reliability: %d lines for %d inputs" % (len(ls), F), rep)
                            break
                        add("reliability", "verif %s, input %d" % (" ".join(args), k),
                            "(let r := reliability X 5 %s %s %s in (map (fun z => fst (fst z)) r ++ map (fun z => snd (fst z)) r)%%list)" % (fvec(ed), fvec(ev.astype(float)), fvec(p)),
                            list(ls[k].get_xdata()) + list(ls[k].get_ydata()), rep)
                        # binning probe on the figure itself: the inset counts must add up to the cases inside [first, last edge]
                        inside = int(np.sum((p >= ed[0]) & (p <= ed[-1])))
                        if len(fig.axes) > 1 and len(fig.axes[1].get_lines()) == F:
                            shown = float(np.nansum(np.asarray(fig.axes[1].get_lines()[k].get_ydata(), float)))
                            if shown != inside:
                                out.violation("binning:reliability", "verif %s, input %d: the bins hold %g cases but %d forecasts lie within the bin range [%g, %g]" % (
                                    " ".join(args), k, shown, inside, ed[0], ed[-1]), rep)
                    elif diag == "discrimination":
                        ed = p_edges if use_q else list(np.linspace(0, 1, 11))
                        nb = len(ed) - 1
                        bars = [b for b in ax.patches if hasattr(b, "get_height")]
                        if len(bars) != 2 * F * nb:
                            out.violation("discrimination:series", "-m discrimination: %d bars, expected %d" % (len(bars), 2 * F * nb), rep)
                            break
                        h0 = [b.get_height() for b in bars[2 * k * nb: 2 * k * nb + nb]]
                        h1 = [b.get_height() for b in bars[2 * k * nb + nb: 2 * (k + 1) * nb]]
                        add("discrimination", "verif %s, input %d" % (" ".join(args), k),
                            xy_expr("discrimination X %s %s %s" % (fvec(ed), fvec(ev.astype(float)), fvec(p))), h0 + h1, rep)
                        for hh, sel, nm in ((h0, ~ev, "not observed"), (h1, ev, "observed")):
                            pp = p[sel]
                            if len(pp) and not np.any(np.isnan(hh)):
                                inside = 100.0 * np.sum((pp >= ed[0]) & (pp <= ed[-1])) / len(pp)
                                if abs(sum(hh) - inside) > 1e-6:
                                    out.violation("binning:discrimination", "verif %s, input %d (%s): the bars add up to %g%% but %g%% of the forecasts lie within the bin range" % (
                                        " ".join(args), k, nm, sum(hh), inside), rep)
                    else:
                        lv = p_edges if use_q else list(np.linspace(0, 1, 11))
                        ls = lines_of(ax, names)
                        if len(ls) != F:
                            out.violation("roc:series", "-m roc: %d lines for %d inputs" % (len(ls), F), rep)
                            break
                        add("roc", "verif %s, input %d" % (" ".join(args), k),
                            "(let r := roc X %s %s %s in (map fst r ++ map snd r)%%list)" % (fvec(lv), bools(ev), fvec(p)),
                            list(ls[k].get_xdata()) + list(ls[k].get_ydata()), rep)

            # ---- pithist ------------------------------------------------------------------------------------------
            use_r = rng.random() < 0.5
            pe = sorted(rng.sample([0, 0.125, 0.25, 0.5, 0.625, 0.75, 1], rng.randint(3, 5)))
            args = ["-m", "pithist"] + (["-r", ",".join(str(e) for e in pe)] if use_r else [])
            fig, rep, _ = run(args)
            if fig is not None:
                ed = pe if use_r else list(np.linspace(0, 1, 11))
                if len(fig.axes) != F:
                    out.violation("pithist:series", "-m pithist: %d sub-axes for %d inputs" % (len(fig.axes), F), rep)
                else:
                    for k, ax in enumerate(fig.axes):
                        pit = data.get_scores([verif.field.Pit()], k, NO)[0]
                        bars = [b.get_height() for b in ax.patches if hasattr(b, "get_height")]
                        add("pithist", "verif %s, input %d" % (" ".join(args), k), "pithist X %s %s" % (fvec(ed), fvec(pit)), bars, rep)

            # ---- spread-skill -----------------------------------------------------------------------------------
            se = sorted(rng.sample([0, 0.5, 1, 2, 3, 4, 6, 8, 12], rng.randint(3, 6)))
            # the spread is (highest requested quantile) - (lowest requested quantile), in whatever order -q lists them
            args = ["-m", "spreadskill", "-r", ",".join(str(e) for e in se), "-q", rng.choice(["0.1,0.9", "0.9,0.1", "0.1,0.9,0.5", "0.5,0.9,0.1", "0.9,0.5,0.1"])]
            fig, rep, _ = run(args)
            if fig is not None:
                ls = lines_of(fig.axes[0], names)
                for k, l in enumerate(ls[:F]):
                    o, fc, lo, up = data.get_scores([OBS, FC, verif.field.Quantile(0.1), verif.field.Quantile(0.9)], k, NO)
                    add("spreadskill", "verif %s, input %d" % (" ".join(args), k),
                        xy_expr("spreadskill X %s %s %s %s %s" % (fvec(se), fvec(o), fvec(fc), fvec(lo), fvec(up))),
                        list(l.get_xdata()) + list(l.get_ydata()), rep)
                if len(ls) != F:
                    out.violation("spreadskill:series", "-m spreadskill: %d lines for %d inputs" % (len(ls), F), rep)

            # ---- economic value: at every cost-loss ratio of the grid each case either acts (p >= ratio) or not -------------
            t_e = rng.choice(PS)
            bt_e = rng.choice(["above", "above=", "below", "below="])
            args = ["-m", "economicvalue", "-r", str(t_e), "-b", bt_e]
            fig, rep, _ = run(args)
            if fig is not None:
                ls = lines_of(fig.axes[0], names)
                if len(ls) != F:
                    out.violation("economicvalue:series", "-m economicvalue: %d lines for %d inputs" % (len(ls), F), rep)
                grid = [(j / 20.0) ** 3 for j in range(21)]
                for k, l in enumerate(ls[:F]):
                    o, cdf = data.get_scores([OBS, verif.field.Threshold(t_e)], k, NO)
                    if len(o) == 0 or np.any(np.isnan(o)):
                        continue
                    ev = {"above": o > t_e, "above=": o >= t_e, "below": o < t_e, "below=": o <= t_e}[bt_e]
                    pr = 1 - cdf if bt_e.startswith("above") else cdf
                    xs_ = [float(x) for x in l.get_xdata()]
                    if len(xs_) != 21 or any(abs(a_ - b_) > 1e-12 for a_, b_ in zip(xs_, grid)):
                        out.violation("economicvalue:grid", "verif %s, input %d: the cost-loss ratios on the x-axis are %r, expected (j/20)^3 for j = 0..20" % (" ".join(args), k, xs_), rep)
                        continue
                    add("economicvalue", "verif %s, input %d" % (" ".join(args), k),
                        "map (fun a => econ_value X a %s %s) %s" % (bools(ev), fvec(pr), fvec(xs_)), list(l.get_ydata()), rep)
                    # independent reading of the definition: mean expense of the forecast user against climatology and a perfect forecast
                    clim = float(np.mean(ev))
                    for a_, y_ in zip(xs_, l.get_ydata()):
                        exp_f = float(np.mean(np.where(pr >= a_, a_, np.where(ev, 1.0, 0.0))))
                        exp_c, exp_p = min(clim, a_), clim * a_
                        want = 0.0 if exp_c == exp_p else (exp_c - exp_f) / (exp_c - exp_p)
                        if abs(want - float(y_)) > 1e-9:
                            out.violation("economicvalue:definition", "verif %s, input %d: at cost-loss ratio %r the curve shows %r; mean expenses (forecast %r, climatology %r, perfect %r) give %r"
                                          % (" ".join(args), k, a_, float(y_), exp_f, exp_c, exp_p, want), rep)
                            break

            # ---- deterministic ROC: one (false alarm rate, hit rate) point per forecast threshold, between (1,1) and (0,0) ----
            t_d = rng.choice(PS)
            bt_d = rng.choice(["above", "above=", "below", "below="])
            BTC = {"above": "Above", "above=": "AboveEq", "below": "Below", "below=": "BelowEq"}
            somes = "(fun l => flat_map (fun o => match o with Some i => [i] | None => [] end) l)"
            for diag in ("droc", "droc0"):
                args = ["-m", diag, "-r", str(t_d), "-b", bt_d, "-simple"]
                fig, rep, _ = run(args)
                if fig is None:
                    continue
                ls = lines_of(fig.axes[0], names)
                if len(ls) != F:
                    out.violation("%s:series" % diag, "-m %s: %d lines for %d inputs" % (diag, len(ls), F), rep)
                fth = [float(t_d)] if diag == "droc0" else [float(x) for x in np.linspace(t_d - 10, t_d + 10, 31)]
                for k, l in enumerate(ls[:F]):
                    o, fc = data.get_scores([OBS, FC], k)
                    add(diag, "verif %s, input %d" % (" ".join(args), k),
                        "(match %s (get_intervals X %s [%s]) with iv :: _ => let r := droc X iv (%s (get_intervals X %s %s)) %s %s in (map fst r ++ map snd r)%%list | [] => [] end)"
                        % (somes, BTC[bt_d], fl(float(t_d)), somes, BTC[bt_d], fvec(fth), fvec(o), fvec(fc)),
                        list(np.asarray(l.get_xdata()).flatten()) + list(np.asarray(l.get_ydata()).flatten()), rep)

            # ---- Murphy diagram: mean elementary score at 21 probability thresholds ----------------------------------------
            t_m = rng.choice(PS)
            bt_m = rng.choice(["above", "above=", "below", "below="])
            args = ["-m", "murphy", "-r", str(t_m), "-b", bt_m]
            fig, rep, _ = run(args)
            if fig is not None:
                ls = lines_of(fig.axes[0], names)
                if len(ls) != F:
                    out.violation("murphy:series", "-m murphy: %d lines for %d inputs" % (len(ls), F), rep)
                for k, l in enumerate(ls[:F]):
                    o, cdf = data.get_scores([OBS, verif.field.Threshold(t_m)], k, NO)
                    if len(o) == 0 or np.any(np.isnan(o)):
                        continue
                    ev = {"above": o > t_m, "above=": o >= t_m, "below": o < t_m, "below=": o <= t_m}[bt_m]
                    pr = 1 - cdf if bt_m.startswith("above") else cdf
                    xs_ = [float(x) for x in l.get_xdata()]
                    if len(xs_) != 21 or any(abs(a_ - j / 20.0) > 1e-12 for j, a_ in enumerate(xs_)):
                        out.violation("murphy:grid", "verif %s, input %d: the probability thresholds on the x-axis are %r, expected j/20 for j = 0..20" % (" ".join(args), k, xs_), rep)
                        continue
                    add("murphy", "verif %s, input %d" % (" ".join(args), k),
                        "map (fun e => murphy_score X e %s %s) %s" % (bools(ev), fvec(pr), fvec(xs_)), list(l.get_ydata()), rep)
                    # independent reading: elementary score S_e(p, o) = 2e [p > e, o = 0] + 2(1-e) [p < e, o = 1] + 2e(1-e) [p = e]
                    for e_, y_ in zip(xs_, l.get_ydata()):
                        want = float(np.mean(np.where(pr > e_, np.where(ev, 0.0, 2 * e_), np.where(pr < e_, np.where(ev, 2 * (1 - e_), 0.0), 2 * e_ * (1 - e_)))))
                        if abs(want - float(y_)) > 1e-6:
                            out.violation("murphy:definition", "verif %s, input %d: at probability threshold %r the curve shows %r, the mean elementary score is %r"
                                          % (" ".join(args), k, e_, float(y_), want), rep)
                            break

            # ---- inverse reliability: per bin of the forecast quantile, mean quantile against share of obs at or below it ----
            q_i = rng.choice(QS)
            i_edges = sorted(rng.sample([-2, 0, 1, 2, 3, 4, 5, 6, 8, 10], rng.randint(3, 6)))
            args = ["-m", "invreliability", "-q", str(q_i), "-r", ",".join(str(e) for e in i_edges), "-simple"]
            fig, rep, _ = run(args)
            if fig is not None:
                ls = lines_of(fig.axes[0], names)
                if len(ls) != F:
                    out.violation("invreliability:series", "-m invreliability: %d lines for %d inputs" % (len(ls), F), rep)
                for k, l in enumerate(ls[:F]):
                    o, qv = data.get_scores([OBS, verif.field.Quantile(q_i)], k, NO)
                    if len(o) == 0 or np.any(np.isnan(o)):
                        continue
                    add("invreliability", "verif %s, input %d" % (" ".join(args), k),
                        xy_expr("invreliability X %s %s %s" % (fvec(i_edges), fvec(o), fvec(qv))), list(l.get_xdata()) + list(l.get_ydata()), rep)

            # ---- ignorance contribution: per probability bin: mean probability, scaled ignorance, count (second panel) ------
            t_g = rng.choice(PS)
            bt_g = rng.choice(["above", "above=", "below", "below="])
            args = ["-m", "igncontrib", "-r", str(t_g), "-b", bt_g]
            fig, rep, _ = run(args)
            if fig is not None and len(fig.axes) >= 2:
                ls = lines_of(fig.axes[0], names)
                ls2 = list(fig.axes[1].get_lines())
                if len(ls) != F or len(ls2) != F:
                    out.violation("igncontrib:series", "-m igncontrib: %d curves and %d count lines for %d inputs" % (len(ls), len(ls2), F), rep)
                g_edges = [float(x) for x in np.linspace(0, 1, 12)]
                for k in range(min(F, len(ls), len(ls2))):
                    o, cdf = data.get_scores([OBS, verif.field.Threshold(t_g)], k, NO)
                    if len(o) == 0 or np.any(np.isnan(o)):
                        continue
                    ev = {"above": o > t_g, "above=": o >= t_g, "below": o < t_g, "below=": o <= t_g}[bt_g]
                    pr = 1 - cdf if bt_g.startswith("above") else cdf
                    counts = [float(x) for x in ls2[k].get_ydata()]
                    if abs(sum(counts) - len(pr)) > 1e-9:
                        lost = sorted(set(float(x) for x in pr[~((pr >= 0) & (pr < 1))]))
                        out.violation("binning:igncontrib", "verif %s, input %d: the bins hold %g of the %d cases; forecasts with probability %r are in no bin" % (
                            " ".join(args), k, sum(counts), len(pr), lost), rep)
                        continue
                    with np.errstate(all="ignore"):
                        add("igncontrib", "verif %s, input %d" % (" ".join(args), k),
                            "(let r := igncontrib X %s %s %s in (fst (fst r) ++ snd (fst r) ++ map (n_ofnat X) (snd r))%%list)" % (fvec(g_edges), bools(ev), fvec(pr)),
                            list(ls[k].get_xdata()) + list(ls[k].get_ydata()) + counts, rep)

            # ---- autocorr / autocov: (distance, correlation or covariance of the errors) for every ordered pair along -x -------
            for diag in ("autocorr", "autocov"):
                axn_a = rng.choice(["leadtime", "time", "lat", "lon", "elev"])
                args = ["-m", diag, "-x", axn_a, "-simple"]
                fig, rep, _ = run(args)
                if fig is None:
                    continue
                ls = lines_of(fig.axes[0], names)
                if len(ls) != F:
                    out.violation("%s:series" % diag, "-m %s: %d point series for %d inputs" % (diag, len(ls), F), rep)
                for k, l in enumerate(ls[:F]):
                    o3, f3 = data.get_scores([OBS, FC], k)
                    er = o3 - f3
                    if axn_a == "leadtime":
                        coords, scale, rows_ = data.leadtimes, 1.0, [er[:, i, :].flatten() for i in range(er.shape[1])]
                    elif axn_a == "time":
                        coords, scale, rows_ = data.times, 3600.0, [er[i, :, :].flatten() for i in range(er.shape[0])]
                    else:
                        coords = [getattr(loc, axn_a) for loc in data.locations]
                        scale, rows_ = 1.0, [er[:, :, i].flatten() for i in range(er.shape[2])]
                    with np.errstate(all="ignore"):
                        add(diag, "verif %s, input %d" % (" ".join(args), k),
                            xy_expr("auto_points X %s %s %s %s" % ("true" if diag == "autocov" else "false", fl(scale), fvec(coords), fvecs(rows_))),
                            list(l.get_xdata()) + list(l.get_ydata()), rep)

            # ---- Brier score decomposition diagram: (reliability, resolution) per slice -------------------------------------
            t_b = rng.choice(PS)
            bt_b = rng.choice(["above", "below"])
            axn_b = rng.choice([None, "leadtime", "location"])
            args = ["-m", "bsdecomp", "-r", str(t_b), "-b", bt_b] + (["-x", axn_b] if axn_b else [])
            fig, rep, _ = run(args)
            if fig is not None:
                ls = lines_of(fig.axes[0], names)
                if len(ls) != F:
                    out.violation("bsdecomp:series", "-m bsdecomp: %d point series for %d inputs" % (len(ls), F), rep)
                axis_b = verif.axis.get(axn_b) if axn_b else NO
                size_b = data.get_axis_size(axis_b)
                for k, l in enumerate(ls[:F]):
                    sl = []
                    for i in range(size_b):
                        o, cdf = data.get_scores([OBS, verif.field.Threshold(t_b)], k, axis_b, i)
                        ev = (o > t_b) if bt_b == "above" else (o < t_b)
                        sl.append((np.where(np.isnan(o), np.nan, ev.astype(float)), 1 - cdf if bt_b == "above" else cdf))
                    add("bsdecomp", "verif %s, input %d" % (" ".join(args), k),
                        "(map (fun z => BsRel_model X (fst z) (snd z)) [%s] ++ map (fun z => BsRes_model X (fst z) (snd z)) [%s])%%list" % (
                            "; ".join("(%s, %s)" % (fvec(a_), fvec(b_)) for a_, b_ in sl), "; ".join("(%s, %s)" % (fvec(a_), fvec(b_)) for a_, b_ in sl)),
                        list(np.asarray(l.get_xdata()).flatten()) + list(np.asarray(l.get_ydata()).flatten()), rep)

            # ---- freq: share of forecasts (per input) and of observations inside each interval ------------------------
            f_edges = sorted(rng.sample([0, 1, 2, 3, 4, 5, 6, 7, 8], rng.randint(3, 6)))
            args = ["-m", "freq", "-r", ",".join(str(e) for e in f_edges)]
            fig, rep, _ = run(args)
            if fig is not None:
                ls = lines_of(fig.axes[0], names)
                ivs = "(flat_map (fun o => match o with Some i => [i] | None => [] end) (get_intervals X WithinEq %s))" % fvec(f_edges)
                if len(ls) != F:
                    out.violation("freq:series", "-m freq: %d lines for %d inputs" % (len(ls), F), rep)
                for k, l in enumerate(ls[:F]):
                    o, fc = data.get_scores([OBS, FC], k, NO)
                    add("freq", "verif %s, input %d" % (" ".join(args), k), "freq_line X %s %s" % (ivs, fvec(fc)), l.get_ydata(), rep)
                obs_lines = [l for l in fig.axes[0].get_lines() if l.get_label() == "Observed"]
                if len(obs_lines) == 1:
                    o, fc = data.get_scores([OBS, FC], F - 1, NO)
                    add("freq", "verif %s, observations" % " ".join(args), "freq_line X %s %s" % (ivs, fvec(o)), obs_lines[0].get_ydata(), rep)

            # ---- marginal: mean probability of the event and its observed frequency ------------------------------------
            args = ["-m", "marginal", "-r", ",".join(str(t_) for t_ in PS)]
            fig, rep, _ = run(args)
            if fig is not None:
                ls = lines_of(fig.axes[0], names)
                if len(ls) != F:
                    out.violation("marginal:series", "-m marginal: %d lines for %d inputs" % (len(ls), F), rep)
                for k, l in enumerate(ls[:F]):
                    terms = []
                    for t_ in PS:
                        o, cdf = data.get_scores([OBS, verif.field.Threshold(t_)], k, NO)
                        terms.append("fst (marginal_point X %s %s)" % (fvec((o > t_).astype(float)), fvec(1 - cdf)))
                    add("marginal", "verif %s, input %d" % (" ".join(args), k), "[" + "; ".join(terms) + "]", l.get_ydata(), rep)

            # ---- error decomposition and Taylor diagram (one point per slice) ---------------------------------------------
            for diag in ("error", "taylor"):
                axn2 = rng.choice([None, "leadtime", "location"]) if diag == "taylor" else None     # -m error does not take -x
                args = ["-m", diag] + (["-x", axn2] if axn2 else [])
                fig, rep, _ = run(args)
                if fig is None:
                    continue
                ls = lines_of(fig.axes[0], names)
                if len(ls) != F:
                    out.violation("%s:series" % diag, "-m %s: %d point series for %d inputs" % (diag, len(ls), F), rep)
                    continue
                axis2 = verif.axis.get(axn2) if axn2 else NO
                size = data.get_axis_size(axis2)
                for k, l in enumerate(ls):
                    sl = [data.get_scores([OBS, FC], k, axis2, i) for i in range(size)]
                    if any(len(o_) < 2 or np.var(o_) == 0 or np.var(f_) == 0 for o_, f_ in sl):
                        continue                     # undefined correlation / one case: not compared
                    if diag == "error":
                        expr = "(let r := map (fun z => error_point X (fst z) (snd z)) [%s] in (map fst r ++ map snd r)%%list)" % "; ".join(
                            "(%s, %s)" % (fvec(o_), fvec(f_)) for o_, f_ in sl)
                    else:
                        expr = "(let r := map (fun z => taylor_point X %s (fst z) (snd z)) [%s] in (map fst r ++ map snd r)%%list)" % (
                            "true" if size > 1 else "false", "; ".join("(%s, %s)" % (fvec(o_), fvec(f_)) for o_, f_ in sl))
                    add(diag, "verif %s, input %d" % (" ".join(args), k), expr, list(l.get_xdata()) + list(l.get_ydata()), rep)

            # ---- performance diagram: (success ratio, probability of detection) per slice --------------------------------
            pt = rng.choice([2, 3, 4, 5])
            axn3 = rng.choice([None, "leadtime", "location"])
            args = ["-m", "performance", "-r", str(pt), "-simple"] + (["-x", axn3] if axn3 else [])
            fig, rep, _ = run(args)
            if fig is not None:
                ls = lines_of(fig.axes[0], names)
                if len(ls) != F:
                    out.violation("performance:series", "-m performance: %d point series for %d inputs" % (len(ls), F), rep)
                axis3 = verif.axis.get(axn3) if axn3 else NO
                size = data.get_axis_size(axis3)
                for k, l in enumerate(ls[:F]):
                    sl = [data.get_scores([OBS, FC], k, axis3, i) for i in range(size)]
                    expr = ("(let iv := match get_intervals X Above [%s] with Some i :: _ => i | _ => mk_interval X None None false false end in "
                            "let r := map (fun z => performance_point X iv (fst z) (snd z)) [%s] in (map fst r ++ map snd r)%%list)" % (
                                fl(float(pt)), "; ".join("(%s, %s)" % (fvec(o_), fvec(f_)) for o_, f_ in sl)))
                    add("performance", "verif %s, input %d" % (" ".join(args), k), expr, list(l.get_xdata()) + list(l.get_ydata()), rep)

            # ---- time series: one forecast line per input and initialisation time ------------------------------------
            fig, rep, _ = run(["-m", "timeseries"])
            if fig is not None:
                ls = list(fig.axes[0].get_lines())
                ntimes = len(data.times)
                if len(ls) != 1 + F * ntimes:
                    out.violation("timeseries:series", "-m timeseries: %d lines, expected 1 obs line + %d inputs x %d times" % (len(ls), F, ntimes), rep)
                else:
                    for k in range(F):
                        fc = data.get_scores(FC, k)
                        for d in range(ntimes):
                            add("timeseries", "verif -m timeseries, input %d, time %d" % (k, d), "row_nanmeans X %s" % fvecs([fc[d, l, :] for l in range(fc.shape[1])]),
                                ls[1 + k * ntimes + d].get_ydata(), rep)
        # ---- rank view (-type rank): for every rank position the stacked shares of the inputs (and of "none") add up to 1,
        #      the shares being taken over the slices where EVERY input has a score
        rank_ties = []
        for rr in range(3 if tier == "quick" else 12):
            Fr = rng.choice([2, 3, 3])
            nl_r = rng.randint(4, 6)
            obs_r = [[rng.randint(0, 32) / 4.0 for _ in range(4)] for _ in range(nl_r)]
            files_r = []
            const_at = {k: rng.randrange(nl_r) for k in range(1, Fr) if rng.random() < 0.7}      # an input whose forecasts are constant at one lead time: corr undefined there
            tie_at = rng.randrange(nl_r)
            if rr == 0:         # always once: three inputs, the third undefined exactly where the first two tie
                Fr, const_at = 3, {2: tie_at}
            for k in range(Fr):
                fn_r = os.path.join(tmp, "rank%d_%s.txt" % (rr, "abc"[k]))
                with open(fn_r, "w") as f_:
                    f_.write("unixtime leadtime location obs fcst\n")
                    for l_ in range(nl_r):
                        for t_ in range(4):
                            fc_ = obs_r[l_][t_] + rng.randint(-8, 8) / 4.0
                            if const_at.get(k) == l_:
                                fc_ = 3.0
                            if l_ == tie_at and k <= 1:
                                fc_ = obs_r[l_][t_] + (1.0 if t_ % 2 else -1.0)          # inputs 0 and 1 tie at this lead time
                            f_.write("%d %d 1 %g %g\n" % (1325376000 + 86400 * t_, 6 * l_, obs_r[l_][t_], fc_))
                files_r.append(fn_r)
            mname_r = "corr" if rr == 0 else rng.choice(["corr", "mae"])
            argv_r = ["verif"] + files_r + ["-m", mname_r, "-type", "rank", "-x", "leadtime", "-f", os.path.join(tmp, "rank%d.png" % rr)]
            st, info = runner.run(argv_r)
            rep_r = {"argv": ["verif"] + [os.path.basename(f_) for f_ in files_r] + argv_r[1 + Fr:-1], "files": {os.path.basename(f_): open(f_).read() for f_ in files_r}}
            if st != "ok":
                out.violation("rank:%s" % st, "verif %s ends with %s %s" % (" ".join(rep_r["argv"][1:]), st, info), rep_r)
                continue
            fig_r = runner.cap.get("fig")
            stats["rank"] = stats.get("rank", 0) + 1
            cols_r = {}
            for b_ in fig_r.axes[0].patches:
                if hasattr(b_, "get_height") and b_.get_width() > 0:
                    cols_r.setdefault(round(b_.get_x(), 6), 0.0)
                    cols_r[round(b_.get_x(), 6)] += b_.get_height() if not np.isnan(b_.get_height()) else 0.0
            # tie of Model/Rank.v: the status of every slice from the scores themselves (full precision, through the metric API),
            # the bar heights from the model's counts
            try:
                with common.quiet():
                    data_r = verif.data.Data([verif.input.get_input(f_) for f_ in files_r])
                    m_r = verif.metric.get(mname_r)
                    y_r = np.array([m_r.compute(data_r, k_, verif.axis.Leadtime(), None) for k_ in range(Fr)], float).T
                tol_r = np.nanstd(y_r) / 50
                rows_r = []
                for row in y_r:
                    if np.any(np.isnan(row)):
                        rows_r.append("Invalid")
                    elif abs(row[0] - row[1]) < tol_r:
                        rows_r.append("Tie")
                    else:
                        order_ = [int(q_) for q_ in np.argsort(row)]
                        if m_r.orientation == 1:
                            order_ = order_[::-1]
                        rows_r.append("(Ranked [%s]%%nat)" % "; ".join(str(q_) for q_ in order_))
                expr_r = ("(let rows := [%s] in (flat_map (fun i => map (fun j => DataQ.f_of_nat (rank_count %d i j rows)) (seq 0 %d)) (seq 0 %d) ++ "
                          "map (fun j => DataQ.f_of_nat (tie_count rows)) (seq 0 %d) ++ [DataQ.f_of_nat (valid_count rows)])%%list)" % ("; ".join(rows_r), Fr, Fr, Fr, Fr))
                bars_r = [b_.get_height() for b_ in fig_r.axes[0].patches if hasattr(b_, "get_height") and b_.get_width() > 0]
                rank_ties.append((expr_r, bars_r, Fr, rep_r))
            except Exception as e_:
                out.broken_obligation("tie:Model/Rank.v", "could not prepare the rank tie: %r" % (e_,))
            if len(cols_r) != Fr or any(abs(v_ - 1.0) > 1e-9 for v_ in cols_r.values()):
                out.violation("rank:shares", "verif %s: the stacked shares at the %d rank positions add up to %r, expected 1 at each of the %d positions "
                              "(inputs with an undefined score at one lead time: %r; inputs 0 and 1 tie at lead time %d)"
                              % (" ".join(rep_r["argv"][1:]), len(cols_r), [round(v_, 4) for v_ in cols_r.values()], Fr, {k_: 6 * v_ for k_, v_ in const_at.items()}, 6 * tie_at), rep_r)
        if rank_ties:
            try:
                got_rt = common.coq_eval_float_lists("From VF Require Import Model.DataQ Model.Rank.", [t_[0] for t_ in rank_ties], "c16rank_%d" % seed, chunk=20, float_scope=False)
                for (expr_r, bars_r, Fr, rep_r), g_ in zip(rank_ties, got_rt):
                    nv_ = g_[-1]
                    want_r = [c_ / nv_ if nv_ > 0 else float("nan") for c_ in g_[:-1]]
                    ok_ = len(bars_r) == len(want_r) and all((np.isnan(a_) and np.isnan(b_)) or abs(a_ - b_) < 1e-9 for a_, b_ in zip(bars_r, want_r))
                    if not ok_:
                        out.broken_obligation("tie:Model/Rank.v", "rank view of %s: bar heights %r, the model's shares are %r" % (" ".join(rep_r["argv"][1:]), [round(float(x_), 4) for x_ in bars_r], [round(x_, 4) for x_ in want_r]))
                        out.violation("rank:bars", "verif %s: the bars (input-major, then 'None') have heights %r; the shares of the slices in which each input stands at each rank position are %r"
                                      % (" ".join(rep_r["argv"][1:]), [round(float(x_), 4) for x_ in bars_r], [round(x_, 4) for x_ in want_r]), rep_r)
            except RuntimeError as ex:
                out.broken_obligation("tie:Model/Rank.v", str(ex)[-1200:])
    finally:
        runner.close()
        runner.mpl.close("all")
    agree = 0
    try:
        got = common.coq_eval_float_lists(PRE, exprs, "c16_%d" % seed, chunk=12, timeout=900)
        for g, (key, what, obs, rep) in zip(got, pend):
            if common.close_lists(g, obs, 1e-6):
                agree += 1
            else:
                out.violation(key, "%s: the figure shows %s, the diagram's defining statistic is %s" % (what, obs[:14], g[:14]), rep)
    except RuntimeError as ex:
        out.broken_obligation("tie:Diagrams", str(ex)[-1500:])
    return {
        "evaluations": len(exprs) + csv_compared,
        "distinct_nontrivial": len(exprs) + csv_compared,
        "rule": "per round: 2-3 generated input files (3-5 times x 2-4 lead times x 2-3 locations, independent missing cells), one verif.driver.run per "
                "diagram with random options (-r/-q edges, -x); each evaluation is one drawn series (line, bar group, polygon) compared with the "
                "model's statistic or with the csv table; distinct = all (every series has its own data)",
        "samples": [p[1] for p in pend[:4]],
        "input_distribution": dict(stats, standard_lines_equal_csv=csv_compared),
        "traces_validated_against_impl": agree + csv_compared,
    }
