"""C15 -- aggregators and -T pre-aggregation.
Tie A: generated aggregators (float instance) vs verif.aggregator on vectors incl. NaN.
Tie B: Model/Window.v (rational instance) vs verif.data.preaggregate_leadtime/_time for every
aggregator expressible over Q, on irregular / unsorted grids.
Falsifier: independent trailing-window oracle through preaggregate_* and through Data(dim_agg_*),
aggregators along every axis of arrays up to 4-D."""
import math
import random

import numpy as np

import common
import datagen
from common import fl_list, close
from p_c05 import AGGS, COQ_AGG, oagg

GEN_PREFIXES = ["verif/aggregator.py", "verif/util.py:nprange", "verif/util.py:numvalid"]
EXTRA_TARGETS = ["Model/Render.vo", "Gen/Gen_aggregator.vo", "Model/WindowQ.vo"]
ASSUMPTIONS = ["numpy reductions restated in coq/Base/Vec.v (population variance, linear percentile, NaN propagation)",
               "pre-aggregated arrays are compared with tolerance 1e-9 (they were stored as float32 by the pinned code: fixed)",
               "the theorem about the trailing window assumes a strictly increasing grid; unsorted grids are a known finding"]
NAN = float("nan")
QAGG = ["mean", "sum", "min", "max", "range", "count", "change", "abschange", "meanabs", "absmean", "median", "variance"]


def qcube(c):
    return datagen.coq_list(datagen.coq_list(datagen.coq_list(datagen.qlit(v) for v in r) for r in p) for p in c)


def explore(out, tier, seed, facts, replay=None):
    with common.quiet():
        return _explore(out, tier, seed, facts, replay)


def _explore(out, tier, seed, facts, replay):
    import verif.aggregator
    import verif.data
    import verif.axis
    datagen.patch_error()
    rng = random.Random(seed + 1515)
    aggs = {a: verif.aggregator.get(a) for a in AGGS}
    # ---- Tie A: aggregators ---------------------------------------------------------------------
    exprs, expected, descr = [], [], []
    nvec = 150 if tier == "quick" else 1500
    for _ in range(nvec):
        L = rng.randint(1, 9)
        v = [rng.choice([-2.0, 0.0, 0.5, 1.0, 3.0, rng.randint(-30, 30) / 4.0]) for _ in range(L)]
        if rng.random() < 0.12:
            v = [rng.choice([7.9, 5.1, 1013.25, -0.3])] * rng.randint(3, 8)       # equal, not exactly representable values: no spread at all
            L = len(v)
        elif rng.random() < 0.08:
            v = [101325.0 + x for x in v]                                          # small spread on a large offset (pressure in Pa)
        if rng.random() < 0.2:
            v[rng.randrange(L)] = NAN
        exprs.append("[" + "; ".join("%s %s" % (COQ_AGG[a], fl_list(v)) for a in AGGS) + "]")
        exp = []
        for a in AGGS:
            try:
                exp.append(float(aggs[a](np.array(v))))
            except Exception as e:
                out.violation("aggregator-exception:%s" % a, "aggregator %s raised %r on %r" % (a, e, v), {"aggregator": a, "values": v})
                exp.append(-12345.0)
                continue
            # independent statistic (plain Python, written from the documentation) on vectors without a missing value
            if not any(math.isnan(x) for x in v):
                want_a = oagg(a, v)
                if not (abs(exp[-1] - want_a) <= 1e-9 * max(1.0, abs(want_a))):
                    out.violation("aggregator-value:%s" % a, "aggregator %s of %r is %r; the statistic is %r" % (a, v, exp[-1], want_a), {"aggregator": a, "values": v})
        expected.append(exp)
        descr.append({"values": [repr(x) for x in v]})
    disagreements = []
    try:
        got = common.coq_eval_float_lists(
            "From VF Require Import Base.Num Base.Vec Base.Event Gen.Gen_interval Gen.Gen_detmetrics Gen.Gen_aggregator Model.Render.",
            exprs, "c15a_%d" % seed, chunk=60)
        for g, e, dsc in zip(got, expected, descr):
            bad = [(AGGS[i], g[i], e[i]) for i in range(min(len(g), len(e))) if not close(g[i], e[i], 1e-9)]
            if bad:
                disagreements.append({"case": dsc, "differs": bad[:4]})
    except RuntimeError as ex:
        out.broken_obligation("tie:Gen_aggregator", str(ex)[-1500:])
    if disagreements:
        out.broken_obligation("tie:aggregators", "%d of %d vectors differ; first %r" % (len(disagreements), len(exprs), disagreements[0]))
    # ---- Tie B: window model vs preaggregate_* ----------------------------------------------------
    wexprs, wexp, wdescr = [], [], []
    nwin = 60 if tier == "quick" else 600
    for _ in range(nwin):
        lead_axis = rng.random() < 0.6
        n = rng.randint(1, 7)
        kind = rng.random()
        if kind < 0.6:       # irregular increasing grid
            grid = sorted(rng.sample([0, 1, 2, 3, 6, 9, 12, 18, 24, 30, 36, 48, 72], n))
        elif kind < 0.8:     # regular
            step = rng.choice([1, 3, 6, 24])
            grid = [step * i for i in range(n)]
        else:                # file order (not increasing)
            grid = rng.sample([0, 1, 2, 3, 6, 9, 12, 18, 24], n)
        h = rng.choice([1, 2, 3, 4, 6, 7, 12, 24, 100])
        nt, nl, ns = (rng.randint(1, 3), n, rng.randint(1, 2)) if lead_axis else (n, rng.randint(1, 3), rng.randint(1, 2))
        cube = [[[None if rng.random() < 0.1 else (rng.randint(-8, 16) / 4.0 if rng.random() < 0.6 else rng.randint(-20, 40) / 10.0) for _ in range(ns)] for _ in range(nl)] for _ in range(nt)]
        arr = np.array([[[NAN if v is None else v for v in r] for r in p] for p in cube], float)
        k = rng.randrange(len(QAGG))
        a = aggs[QAGG[k]]
        try:
            if lead_axis:
                r = verif.data.preaggregate_leadtime(arr, np.array(grid, float), a, h)
                zgrid, zh = [g * 1000 for g in grid], h * 1000
            else:
                r = verif.data.preaggregate_time(arr, np.array([g * 3600 for g in grid], float), a, h)
                zgrid, zh = [g * 3600 for g in grid], h * 3600
            res = [float(x) for x in r.flatten()]
        except Exception as e:
            out.violation("preaggregate-exception", "preaggregate raised %r (grid %r, h %r, agg %s)" % (e, grid, h, QAGG[k]),
                          {"grid": grid, "h": h, "agg": QAGG[k], "lead_axis": lead_axis})
            continue
        wexprs.append("run_preagg %s %d %s (%d)%%Z %s" % ("true" if lead_axis else "false", k,
                                                           datagen.coq_list("(%d)%%Z" % g for g in zgrid), zh, qcube(cube)))
        wexp.append(res)
        wdescr.append({"axis": "leadtime" if lead_axis else "time", "grid": grid, "h": h, "agg": QAGG[k], "cube": cube})
    wdis = []
    try:
        got = common.coq_eval_float_lists("From Coq Require Import ZArith QArith.\nFrom VF Require Import Base.Num Model.DataQ Model.Window Model.WindowQ.",
                                          wexprs, "c15w_%d" % seed, chunk=40, float_scope=False)
        for g, e, dsc in zip(got, wexp, wdescr):
            if not common.close_lists(g, e, 1e-9):
                wdis.append({"case": dsc, "model": g, "implementation": e})
    except RuntimeError as ex:
        out.broken_obligation("tie:Model/Window.v", str(ex)[-1500:])
    if wdis:
        out.broken_obligation("tie:Model/Window.v<->preaggregate", "%d of %d cases differ; first %r" % (len(wdis), len(wexprs), wdis[0]))
    # ---- falsifier: independent trailing window (l-h, l] on increasing grids ------------------------
    nf = 0
    distinct = set()
    samples = []
    for dsc, res in zip(wdescr, wexp):
        grid, h, cube = dsc["grid"], dsc["h"], dsc["cube"]
        unsorted = any(a >= b for a, b in zip(grid, grid[1:]))
        distinct.add((tuple(grid), h, dsc["agg"], dsc["axis"]))
        nt, nl, ns = len(cube), len(cube[0]), len(cube[0][0])
        want = []
        for a in range(nt):
            for b in range(nl):
                for s in range(ns):
                    t = b if dsc["axis"] == "leadtime" else a
                    idx = [i for i in range(len(grid)) if grid[t] - h < grid[i] <= grid[t]]
                    vals = [(cube[a][i][s] if dsc["axis"] == "leadtime" else cube[i][b][s]) for i in idx]
                    if dsc["agg"] == "count":
                        want.append(float(sum(1 for v in vals if v is not None)))
                    elif dsc["agg"] in ("change", "abschange"):
                        # last minus first value of the window: missing values in between do not matter
                        if not vals or vals[0] is None or vals[-1] is None:
                            want.append(NAN)
                        else:
                            want.append(vals[-1] - vals[0] if dsc["agg"] == "change" else abs(vals[-1] - vals[0]))
                    elif any(v is None for v in vals):
                        want.append(NAN)
                    else:
                        want.append(oagg(dsc["agg"], vals))
        nf += 1
        if not common.close_lists(res, want, 1e-9):
            out.violation("window:unsorted-grid" if unsorted else "window:%s" % dsc["axis"], "-T %r along %s with -Tagg %s on grid %r: result %r, trailing window (l-h, l] gives %r"
                          % (h, dsc["axis"], dsc["agg"], grid, res[:8], want[:8]), dsc)
        if len(samples) < 3:
            samples.append({"grid": grid, "h": h, "agg": dsc["agg"], "axis": dsc["axis"]})
    # through Data(dim_agg_length=...): obs and fcst are transformed identically before everything else
    for _ in range(10 if tier == "quick" else 120):
        ds = datagen.gen_dataset(rng, options=False)
        ds["cfg"].pop("clim", None)
        for s in ds["inputs"]:
            order = sorted(range(len(s["leads"])), key=lambda i: s["leads"][i])
            if len(set(s["leads"])) != len(s["leads"]):
                break
            s["leads"] = [s["leads"][i] for i in order]
            for f in s["fields"]:
                s["fields"][f] = [[p[i] for i in order] for p in s["fields"][f]]
        else:
            h = rng.choice([1.0, 3.0, 12.0, 30.0])
            aname = rng.choice(["mean", "sum", "max", "min"])
            inputs = [datagen.mem_input(s, "in%d" % i) for i, s in enumerate(ds["inputs"])]
            try:
                d = verif.data.Data(inputs, dim_agg_length=h, dim_agg_axis=verif.axis.Leadtime(), dim_agg_method=aggs[aname])
                kin_ = rng.randrange(len(inputs)) if all("obs" in s_["fields"] for s_ in ds["inputs"]) else 0      # any input, asked FIRST on this object
                got = d.get_scores([datagen.field_obj("obs"), datagen.field_obj("fcst")], kin_, verif.axis.No(), 0)
            except datagen.ImplExit:
                continue
            except Exception as e:
                out.violation("dim-agg-exception", "Data(dim_agg_length=%r) raised %r" % (h, e), {"dataset": ds, "h": h, "agg": aname})
                continue
            # oracle: pre-transform every input's obs/fcst with the independent window, then plain Data
            ds2 = {"inputs": [], "cfg": {}}
            for s in ds["inputs"]:
                s2 = {"times": s["times"], "leads": s["leads"], "locs": s["locs"], "fields": {}}
                for f, c in s["fields"].items():
                    if f not in ("obs", "fcst"):
                        continue
                    nc = []
                    for p in c:
                        newp = []
                        for b in range(len(s["leads"])):
                            row = []
                            for x in range(len(s["locs"])):
                                idx = [i for i in range(len(s["leads"])) if s["leads"][b] - h < s["leads"][i] <= s["leads"][b]]
                                vals = [p[i][x] for i in idx]
                                row.append(None if any(v is None for v in vals) else oagg(aname, vals))
                            newp.append(row)
                        nc.append(newp)
                    s2["fields"][f] = nc
                ds2["inputs"].append(s2)
            want = datagen.impl_request(ds2, (["obs", "fcst"], kin_, 3, 0))
            nf += 1
            g = [[float(v) for v in col] for col in got]
            if not isinstance(want, tuple) and not all(common.close_lists(a, b, 1e-9) for a, b in zip(g, want)):
                out.violation("dim-agg-through-data", "-T %r -Tagg %s, input %d: scores differ from the trailing-window transform of ITS obs and fcst on ITS own lead-time grid" % (h, aname, kin_),
                              {"dataset": ds, "h": h, "agg": aname})
            # ... and another input asked AFTERWARDS on the same object (its observations were loaded by the first request)
            if len(inputs) > 1 and all("obs" in s_["fields"] for s_ in ds["inputs"]):
                k2_ = (kin_ + 1) % len(inputs)
                try:
                    got2 = d.get_scores([datagen.field_obj("obs"), datagen.field_obj("fcst")], k2_, verif.axis.No(), 0)
                    want2 = datagen.impl_request(ds2, (["obs", "fcst"], k2_, 3, 0))
                    nf += 1
                    g2 = [[float(v) for v in col] for col in got2]
                    if not isinstance(want2, tuple) and not all(common.close_lists(a_, b_, 1e-9) for a_, b_ in zip(g2, want2)):
                        out.violation("dim-agg-through-data", "-T %r -Tagg %s, input %d asked after input %d: scores differ from the trailing-window transform of ITS obs and fcst on ITS own lead-time grid" % (h, aname, k2_, kin_),
                                      {"dataset": ds, "h": h, "agg": aname, "first_input": kin_, "then_input": k2_})
                except datagen.ImplExit:
                    pass
                except Exception as e:
                    out.violation("dim-agg-exception", "Data(dim_agg_length=%r): input %d after input %d raised %r" % (h, k2_, kin_, e), {"dataset": ds, "h": h, "agg": aname})
    # two inputs on DIFFERENT lead-time grids (same length): each input's observations and forecasts are windowed on its own grid,
    # whichever input is asked first
    for rep_ in range(4 if tier == "quick" else 30):
        grids_ = [[0.0, 6.0, 12.0, 18.0], sorted(rng.sample([0.0, 3.0, 6.0, 9.0, 12.0, 15.0, 18.0, 21.0], 4))]
        if grids_[0] == grids_[1]:
            grids_[1] = [0.0, 3.0, 9.0, 18.0]
        h_ = rng.choice([4.0, 7.0, 10.0])
        an_ = rng.choice(["sum", "mean", "max"])
        specs_ = []
        for g_ in grids_:
            common_ = [0.0, 18.0]
            specs_.append({"times": [0], "leads": g_, "locs": [[1, 0.0, 0.0, 0.0]],
                           "fields": {"obs": [[[rng.randint(0, 16) / 2.0] for _ in g_]], "fcst": [[[rng.randint(0, 16) / 2.0] for _ in g_]]}})
        def windowed_(spec_, f_):
            out_ = {}
            for b_, lb_ in enumerate(spec_["leads"]):
                idx_ = [i_ for i_, li_ in enumerate(spec_["leads"]) if lb_ - h_ < li_ <= lb_]
                out_[lb_] = oagg(an_, [spec_["fields"][f_][0][i_][0] for i_ in idx_])
            return out_
        shared_ = sorted(set(grids_[0]) & set(grids_[1]))
        for order_ in ((0, 1), (1, 0)):
            d_ = verif.data.Data([datagen.mem_input(sp_, "g%d" % i_) for i_, sp_ in enumerate(specs_)], dim_agg_length=h_, dim_agg_axis=verif.axis.Leadtime(), dim_agg_method=aggs[an_])
            for k_ in order_:
                nf += 1
                try:
                    o_, f_ = d_.get_scores([datagen.field_obj("obs"), datagen.field_obj("fcst")], k_)
                    got_ = ([float(x_) for x_ in np.asarray(o_).flatten()], [float(x_) for x_ in np.asarray(f_).flatten()])
                except Exception as e:
                    got_ = "exception %s: %s" % (type(e).__name__, e)
                want_ = ([windowed_(specs_[k_], "obs")[l_] for l_ in shared_], [windowed_(specs_[k_], "fcst")[l_] for l_ in shared_])
                if isinstance(got_, str) or not (common.close_lists(got_[0], want_[0], 1e-9) and common.close_lists(got_[1], want_[1], 1e-9)):
                    out.violation("dim-agg-own-grid", "-T %g -Tagg %s, inputs on lead-time grids %r and %r asked in the order %r: input %d gives (obs, fcst) = %r at the common lead times %r; windows on ITS OWN grid give %r"
                                  % (h_, an_, grids_[0], grids_[1], list(order_), k_, got_, shared_, want_), {"inputs": specs_, "h": h_, "agg": an_, "order": list(order_)})
                    break
            else:
                continue
            break
    # ensemble members are pre-aggregated too: probabilities and quantiles derived from the ensemble under -T
    import verif.field
    for _ in range(10 if tier == "quick" else 100):
        nl, nm = rng.randint(2, 5), rng.randint(2, 4)
        leads = sorted(rng.sample([0, 1, 2, 3, 6, 9, 12, 24], nl))
        ens = [[rng.randint(0, 12) / 2.0 for _ in range(nm)] for _ in range(nl)]
        spec = {"times": [0], "leads": [float(x) for x in leads], "locs": [[1, 0.0, 0.0, 0.0]],
                "fields": {"obs": [[[1.0] for _ in range(nl)]], "fcst": [[[1.0] for _ in range(nl)]]}}
        inp = datagen.mem_input(spec, "ctrl/fcst.txt")          # two experiments whose files carry the same name in different directories
        inp.ensemble = np.array([[[e] for e in ens]], float)
        ens2 = [[rng.randint(0, 12) / 2.0 for _ in range(nm)] for _ in range(nl)]
        inp2 = datagen.mem_input(spec, "exp/fcst.txt")
        inp2.ensemble = np.array([[[e] for e in ens2]], float)
        h = rng.choice([2.0, 4.0, 7.0, 30.0])
        aname = rng.choice(["sum", "mean", "max"])
        agg_both = []
        for ens_k in (ens, ens2):
            agg_k = []
            for b in range(nl):
                idx = [i for i in range(nl) if leads[b] - h < leads[i] <= leads[b]]
                agg_k.append([oagg(aname, [ens_k[i][m] for i in idx]) for m in range(nm)])
            agg_both.append(agg_k)
        t = rng.choice([1.0, 3.0, 6.0])
        q = rng.choice([0.25, 0.5, 0.9])
        for kind in ("threshold", "quantile"):
            d = verif.data.Data([inp, inp2], dim_agg_length=h, dim_agg_axis=verif.axis.Leadtime(), dim_agg_method=aggs[aname])
            for k_in in ((0, 1) if rng.random() < 0.5 else (1, 0)):
                agg_ens = agg_both[k_in]
                nf += 1
                try:
                    if kind == "threshold":
                        got = [float(x) for x in d.get_scores(verif.field.Threshold(t), k_in, verif.axis.All()).flatten()]
                        want = [sum(1 for v in row if v <= t) / float(nm) for row in agg_ens]
                    else:
                        got = [float(x) for x in d.get_scores(verif.field.Quantile(q), k_in, verif.axis.All()).flatten()]
                        want = [float(np.quantile(np.array(row), q, method="normal_unbiased")) for row in agg_ens]
                except Exception as e:
                    out.violation("ensemble-preaggregation-exception", "%s from the ensemble under -T raised %r" % (kind, e), {"leads": leads, "ensemble": ens, "h": h})
                    continue
                if not common.close_lists(got, want, 1e-6 if kind == "threshold" else 1e-9):      # the member fraction is a float32 mean
                    out.violation("ensemble-not-preaggregated:%s" % kind, "-T %r -Tagg %s, inputs ctrl/fcst.txt and exp/fcst.txt: %s derived from the ensemble of input %d is %r; from ITS pre-aggregated members it is %r"
                                  % (h, aname, kind, k_in, got, want), {"leads": leads, "ensemble_of_input_0": ens, "ensemble_of_input_1": ens2, "h": h, "agg": aname, "threshold": t, "quantile": q})
    # quantile aggregators at arbitrary levels in [0, 1]; levels outside are rejected
    from p_c05 import percentile
    for q in [0.0, 0.005, 0.025, 0.1, 0.29, 1.0 / 3, 0.5, 0.57, 0.58, 0.975, 0.999, 1.0]:
        for _ in range(6):
            v = [rng.randint(-40, 40) / 4.0 for _ in range(rng.randint(1, 12))]
            nf += 1
            try:
                got1 = float(verif.aggregator.get(repr(q))(np.array(v)))
            except BaseException as e:
                out.violation("quantile-aggregator-exception", "aggregator %r raised %r" % (q, e), {"level": q, "values": v})
                continue
            want = percentile(v, q * 100)
            if not close(got1, want, 1e-9):
                out.violation("quantile-aggregator", "-agg %r of %r gives %r, the %g-quantile is %r" % (q, v, got1, q, want), {"level": q, "values": v})
    for q in [-0.1, 1.5, 2]:
        nf += 1
        try:
            verif.aggregator.get(repr(q))
            out.violation("quantile-level-accepted", "aggregator level %r outside [0,1] was accepted" % q, {"level": q})
        except datagen.ImplExit:
            pass
    # aggregators along every dimension of arrays up to 4-D
    # every aggregator x every number of dimensions x every axis (enumerated, not sampled); sizes 2-3 so that a
    # transposed result is visible
    combos = [(a, nd, k) for a in AGGS for nd in range(1, 5) for k in range(nd)]
    if tier != "quick":
        combos = combos * 4
    for a, nd, k in combos:
        shape = [rng.randint(2, 3) for _ in range(nd)]
        arr = np.array([rng.randint(-8, 8) / 2.0 for _ in range(int(np.prod(shape)))]).reshape(shape)
        try:
            r = np.asarray(aggs[a](arr, axis=k))
        except Exception as e:
            out.violation("axis-exception:%s" % a, "aggregator %s(axis=%d) raised %r on shape %r" % (a, k, e, shape), {"aggregator": a, "shape": shape, "axis": k})
            continue
        nf += 1
        want_shape = tuple(shape[:k] + shape[k + 1:])
        if tuple(r.shape) != want_shape:
            out.violation("along-axis-shape:%s" % a, "aggregator %s along axis %d of an array of shape %r returns shape %r, expected %r"
                          % (a, k, shape, tuple(r.shape), want_shape), {"aggregator": a, "shape": shape, "axis": k, "array": arr.tolist()})
            continue
        idxs = [()] if not r.shape else [ix for ix in np.ndindex(*r.shape)]
        for ix in idxs:
            full = list(ix[:k]) + [slice(None)] + list(ix[k:])
            fibre = [float(x) for x in arr[tuple(full)]]
            want = oagg(a, fibre)
            got1 = float(r[ix]) if r.shape else float(r)
            if not close(got1, want, 1e-9):
                out.violation("along-axis:%s" % a, "aggregator %s along axis %d of shape %r at %r gives %r, statistic of the fibre %r is %r"
                              % (a, k, shape, ix, got1, fibre, want), {"aggregator": a, "shape": shape, "axis": k, "array": arr.tolist()})
                break
    return {
        "evaluations": len(exprs) * len(AGGS) + len(wexprs) + nf,
        "distinct_nontrivial": len(distinct) + len(exprs),
        "rule": "vectors of length 1-9 (20% with a NaN) x 16 aggregators; grids: irregular increasing (60%), regular (20%), file order "
                "(20%), window lengths from 1 to longer than the series, x 12 aggregators x lead-time/time axis on small cubes with "
                "missing cells; arrays up to 4-D x every axis; distinct = (grid, h, aggregator, axis) + vectors",
        "samples": samples or [descr[0]],
        "programs": len(exprs) + len(wexprs),
        "disagreements_checked": len(exprs) + len(wexprs),
        "tie_disagreements": len(disagreements) + len(wdis),
        "falsifier_evaluations": nf,
    }
