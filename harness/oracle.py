"""oracle -- an independent, coordinate-keyed reading of the dataset properties (C01-C04, C11, C14),
written from the property text with dictionaries and sets, sharing no code with Model/Data.v or with
verif/data.py.  It is used only to decide whether a model/implementation disagreement is a concrete
failing input of the PROPERTY (the oracle sides with the model) or not (then the disagreement is
reported as a broken correspondence without a failing input)."""
import calendar
import datetime
import math

NAN = float("nan")


def bucket(axis, x):
    if axis in ("time", "leadtime"):
        return x
    if axis == "leadtimeday":
        return int(x / 24)
    dt = datetime.datetime(1970, 1, 1) + datetime.timedelta(seconds=int(x))
    if axis == "year":
        return calendar.timegm((dt.year, 1, 1, 0, 0, 0))
    if axis == "month":
        return calendar.timegm((dt.year, dt.month, 1, 0, 0, 0))
    if axis == "day":
        return calendar.timegm((dt.year, dt.month, dt.day, 0, 0, 0))
    if axis == "week":
        monday = dt.date() - datetime.timedelta(days=dt.weekday())
        return calendar.timegm((monday.year, monday.month, monday.day, 0, 0, 0))
    if axis == "timeofday":
        return (x % 86400) / 3600.0
    if axis == "dayofyear":
        return (datetime.date(2000, dt.month, dt.day) - datetime.date(2000, 1, 1)).days + 1
    if axis == "dayofmonth":
        return dt.day
    if axis == "monthofyear":
        return dt.month
    raise KeyError(axis)


def lookup(spec, field):
    """(time, lead, id) -> value of the FIRST occurrence of those coordinates in the input's own lists"""
    if field not in spec["fields"]:
        return None
    cube = spec["fields"][field]
    out = {}
    for a, t in enumerate(spec["times"]):
        for b, l in enumerate(spec["leads"]):
            for s, loc in enumerate(spec["locs"]):
                out.setdefault((t, l, loc[0]), cube[a][b][s])
    return out


def get_scores(ds, dims, req, axes):
    """dims = (times, leads, ids) as verified; returns columns or ('error', code)"""
    fs, k, ax, ai = req
    cfg = ds["cfg"]
    allinp = ds["inputs"] + ([cfg["clim"]] if "clim" in cfg else [])
    if k >= len(ds["inputs"]):
        return ("error", 8)
    times, leads, ids = dims
    axis = axes[ax]
    # the cases of the slice, in (time, lead, location) order
    cases = [(t, l, s) for t in times for l in leads for s in ids]
    if axis in ("time", "year", "month", "week", "day", "timeofday", "dayofyear", "dayofmonth", "monthofyear"):
        vals = sorted({bucket(axis, t) for t in times})
        cases = [c for c in cases if bucket(axis, c[0]) == vals[ai]]
    elif axis in ("leadtime", "leadtimeday"):
        vals = sorted({bucket(axis, l) for l in leads})
        cases = [c for c in cases if bucket(axis, c[1]) == vals[ai]]
    elif axis == "location":
        cases = [c for c in cases if c[2] == ids[ai]]
    use_clim = "clim" in cfg and ("obs" in fs or "fcst" in fs)
    need = list(fs) + (["fcst"] if use_clim and "fcst" not in fs else [])
    tables = {}
    for f in need:
        per = [lookup(i, f) for i in allinp]
        if f == "obs":
            have = [p for p in per if p is not None]
            if not have:
                return ("error", 6)
            per = [p if p is not None else have[0] for p in per]
        elif any(p is None for p in per):
            return ("error", 7)
        tables[f] = per
    cols = [[] for _ in fs]
    for c in cases:
        # every input (climatology included) must have every needed quantity at this case
        if any(tables[f][j].get(c) is None for f in need for j in range(len(allinp))):
            continue
        row = []
        ok = True
        for f in fs:
            v = tables[f][k][c]
            if f == "obs" and "obs_range" in cfg and not (cfg["obs_range"][0] <= v <= cfg["obs_range"][1]):
                ok = False
            if use_clim and f in ("obs", "fcst"):
                cl = tables["fcst"][-1][c]
                if cfg.get("clim_divide"):
                    if cl == 0:
                        ok = False
                    else:
                        v = v / cl
                else:
                    v = v - cl
            row.append(v)
        if ok:
            for i, v in enumerate(row):
                cols[i].append(v)
    if not cols[0]:
        return [[NAN] for _ in fs]
    return cols
