"""C12 -- text and csv outputs.  Tie B: Model/Table.v composed with Model/Data.v (mae / bias over Q)
against the parsed output of `verif ... -type csv|text` on generated text files, all axes, -acc, -leg,
-f.  Falsifier: structure (header, column order, row order, descriptors), numbers against independently
computed scores rounded to the format's precision, text vs csv agreement."""
import io
import math
import os
import random
import shutil
import tempfile

import numpy as np

import common
import datagen
import oracle
from p_c13 import write_text, dedupe, run_cli

EXTRA_TARGETS = ["Model/Table.vo"]
GEN_PREFIXES = []
ASSUMPTIONS = ["%g / %.4g formatting is library behaviour: numbers are compared after parsing, to 6 (csv) / 4 (text) significant digits",
               "scores used for the comparison: mae and bias (exact rationals in the model), plus ets over thresholds on the implementation side"]
AXNAMES = ["time", "leadtime", "location", "no", "leadtimeday", "year", "month", "week", "day", "timeofday", "dayofyear", "dayofmonth", "monthofyear"]


def sig(x, n):
    if x == 0 or math.isnan(x) or math.isinf(x):
        return x
    return float("%.*g" % (n, x))


def parse_csv(text):
    lines = [l for l in text.strip().split("\n") if l.strip() and not l.startswith("\x1b")]
    header = lines[0].split(",")
    rows = [l.split(",") for l in lines[1:]]
    return header, rows


def parse_text(text):
    lines = [l for l in text.strip().split("\n") if l.strip() and not l.startswith("\x1b")]
    header = [c.strip() for c in lines[0].split("|")][:-1]
    rows = [[c.strip() for c in l.split("|")][:-1] for l in lines[1:]]
    return header, rows


def explore(out, tier, seed, facts, replay=None):
    with common.quiet():
        return _explore(out, tier, seed, facts, replay)


def _explore(out, tier, seed, facts, replay):
    datagen.patch_error()
    rng = random.Random(seed + 1212)
    tmp = tempfile.mkdtemp(prefix="vfc12_")
    nf = 0
    distinct = set()
    samples = []
    exprs, expected, descr = [], [], []
    try:
        ncase = 40 if tier == "quick" else 400
        for ci in range(ncase):
            ds = datagen.gen_dataset(rng, options=False)
            ds["cfg"] = {}
            ds["inputs"] = [dedupe(s) for s in ds["inputs"]]
            names = []
            for i, s in enumerate(ds["inputs"]):
                fn = os.path.join(tmp, "c%d_f%d.txt" % (ci, i))
                write_text(fn, s)
                names.append(fn)
            d = datagen.impl_data(ds)
            if isinstance(d, tuple):
                continue
            dims = datagen.impl_dims(d)
            ax = rng.randrange(13)
            metric = rng.choice(["mae", "bias"])
            acc = rng.random() < 0.3
            if acc and rng.random() < 0.7:
                # -acc over a lead-time axis with one lead time entirely missing in the middle
                ax = 1
                s0 = ds["inputs"][0]
                if len(s0["leads"]) >= 3:
                    mid = sorted(range(len(s0["leads"])), key=lambda i: s0["leads"][i])[1]
                    for p in s0["fields"]["obs"]:
                        p[mid] = [None] * len(s0["locs"])
                    write_text(names[0], s0)
                    d = datagen.impl_data(ds)
                    dims = datagen.impl_dims(d)
            leg = rng.random() < 0.3
            typ = rng.choice(["csv", "text"])
            tofile = rng.random() < 0.3
            argv = ["verif"] + names + ["-m", metric, "-x", AXNAMES[ax], "-type", typ]
            legs = ["L%d_x" % i for i in range(len(names))]
            if acc:
                argv.append("-acc")
            if leg:
                argv += ["-leg", ",".join(legs)]
            ofile = os.path.join(tmp, "out%d.txt" % ci)
            if tofile:
                argv += ["-f", ofile]
            r = run_cli(argv)
            nf += 1
            distinct.add((len(names), AXNAMES[ax], metric, acc, typ))
            if r[0] != "ok":
                out.violation("output-%s" % r[0], "%s ended in %s: %s" % (" ".join(os.path.basename(a) for a in argv[1:]), r[0], r[1][:200]), {"argv": argv})
                continue
            text = open(ofile).read() if tofile else r[1]
            if tofile and r[1].strip() and not r[1].strip().startswith("\x1b"):
                out.violation("f-also-prints", "-f given but the table was also printed to the screen", {"argv": argv})
            header, rows = parse_csv(text) if typ == "csv" else parse_text(text)
            # independent expectation
            sizes = [d.get_axis_size(datagen.axis_obj(a)) for a in range(13)]
            nsl = int(sizes[ax])
            want = []
            for f in range(len(names)):
                col = []
                for ai in range(nsl):
                    o = oracle.get_scores(ds, dims, (["obs", "fcst"], f, ax, ai), datagen.AXES)
                    if isinstance(o, tuple) or (len(o[0]) == 1 and math.isnan(o[0][0])):
                        col.append(float("nan"))
                    elif metric == "mae":
                        col.append(sum(abs(a - b) for a, b in zip(o[0], o[1])) / len(o[0]))
                    else:
                        col.append(sum(b - a for a, b in zip(o[0], o[1])) / len(o[0]))
                if acc:
                    s, c2 = 0.0, []
                    for v in col:
                        s += 0.0 if math.isnan(v) else v
                        c2.append(s)
                    col = c2
                want.append(col)
            ndesc = len(header) - len(names)
            exp_names = [l.replace("_", " ") for l in legs] if leg else [os.path.basename(n) for n in names]
            if header[ndesc:] != exp_names:
                out.violation("header-columns", "header %r: the score columns should be %r in command-line order" % (header, exp_names), {"argv": argv})
                continue
            if len(rows) != nsl:
                out.violation("row-count", "%d rows for %d slices of -x %s" % (len(rows), nsl, AXNAMES[ax]), {"argv": argv})
                continue
            digits = 6 if typ == "csv" else 4
            ok = True
            for i, row in enumerate(rows):
                for f in range(len(names)):
                    got = float(row[ndesc + f])
                    w = want[f][i]
                    if not (common.close(got, sig(w, digits), 1e-9) or common.close(got, w, 10 ** (-digits + 1))):
                        out.violation("cell:%s" % typ, "row %d input %d of %s reports %r, the score is %r (rounded %r)"
                                      % (i, f, " ".join(os.path.basename(a) for a in argv[1:]), got, w, sig(w, digits)), {"argv": argv})
                        ok = False
                        break
                if not ok:
                    break
            # leading fields identify the slice
            vals = d.get_axis_values(datagen.axis_obj(ax))
            if ok and AXNAMES[ax] in ("leadtime", "leadtimeday", "timeofday", "dayofyear", "dayofmonth", "monthofyear") and ndesc == 1:
                for i, row in enumerate(rows):
                    if not common.close(float(row[0]), float(vals[i]), 1e-6):
                        out.violation("descriptor", "row %d is labelled %r, slice value is %r" % (i, row[0], vals[i]), {"argv": argv})
                        break
            if ok and AXNAMES[ax] == "location" and typ == "csv":
                for i, row in enumerate(rows):
                    loc = d.locations[i]
                    if [float(x) for x in row[:4]] != [float(loc.id), float(loc.lat), float(loc.lon), float(loc.elev)]:
                        out.violation("descriptor", "location row %d labelled %r, expected id/lat/lon/elev of %r" % (i, row[:4], loc.id), {"argv": argv})
                        break
            if ok and AXNAMES[ax] in ("year", "month", "week", "day") and typ == "csv":
                # aggregated time axes: one row per period, labelled by the period's start in the axis' own format
                import datetime
                fmt = {"year": "%Y", "month": "%Y/%m", "week": "%Y/%U", "day": "%Y/%m/%d"}[AXNAMES[ax]]
                for i, row in enumerate(rows):
                    w = datetime.datetime.utcfromtimestamp(int(vals[i])).strftime(fmt)
                    if row[0] != w:
                        out.violation("descriptor:%s" % AXNAMES[ax], "-x %s: row %d is labelled %r, the period of that row starts at %d = %r"
                                      % (AXNAMES[ax], i, row[0], int(vals[i]), w), {"argv": argv})
                        break
            if ok and AXNAMES[ax] == "time" and typ == "csv":
                import datetime
                for i, row in enumerate(rows):
                    w = datetime.datetime.utcfromtimestamp(int(d.times[i])).strftime("%Y-%m-%d %H:%M:%S")
                    if row[0] != w:
                        out.violation("descriptor", "time row %d labelled %r, expected %r" % (i, row[0], w), {"argv": argv})
                        break
            # model side
            exprs.append("run_table %s %s %d %d %s" % (datagen.coq_config({}), datagen.coq_list(datagen.coq_input(s) for s in ds["inputs"]),
                                                     0 if metric == "mae" else 1, ax, "true" if acc else "false"))
            expected.append([float(len(rows))] + [float(row[ndesc + f]) for row in rows for f in range(len(names))])
            descr.append({"argv": [os.path.basename(a) for a in argv], "digits": digits})
            if len(samples) < 3:
                samples.append({"argv": [os.path.basename(a) for a in argv[1:]], "header": header, "first_row": rows[0] if rows else None})
        # several thresholds on a data axis: the cell is the AVERAGE of the score over the intervals
        for rep_ in range(4 if tier == "quick" else 40):
            ds = datagen.gen_dataset(rng, options=False)
            ds["cfg"] = {}
            ds["inputs"] = [dedupe(s_) for s_ in ds["inputs"][:2]]
            names = []
            for i, s_ in enumerate(ds["inputs"]):
                fn = os.path.join(tmp, "avg%d_f%d.txt" % (rep_, i))
                write_text(fn, s_)
                names.append(fn)
            d = datagen.impl_data(ds)
            if isinstance(d, tuple):
                continue
            dims = datagen.impl_dims(d)
            ax = rng.choice([1, 2])           # lead time or location
            thr = sorted(rng.sample([-2.0, -1.0, 0.0, 1.0, 2.0, 3.0, 5.0], rng.randint(2, 4)))
            bt = rng.choice(["within", "=within", "above", "below="])
            argv = ["verif"] + names + ["-m", "baserate", "-r", ",".join("%g" % t for t in thr), "-b", bt, "-x", AXNAMES[ax], "-type", "csv"]
            r = run_cli(argv)
            nf += 1
            if r[0] != "ok":
                continue
            header, rows = parse_csv(r[1])
            ndesc = len(header) - len(names)
            if "within" in bt:
                ivs = [(thr[i], thr[i + 1]) for i in range(len(thr) - 1)]
                inside = (lambda x, iv: (iv[0] <= x if bt.startswith("=") else iv[0] < x) and x < iv[1])
            elif bt == "above":
                ivs = [(t, None) for t in thr]
                inside = (lambda x, iv: x > iv[0])
            else:
                ivs = [(None, t) for t in thr]
                inside = (lambda x, iv: x <= iv[1])
            nsl = int(d.get_axis_size(datagen.axis_obj(ax)))
            bad = None
            for f in range(len(names)):
                for ai in range(nsl):
                    o = oracle.get_scores(ds, dims, (["obs", "fcst"], f, ax, ai), datagen.AXES)
                    if isinstance(o, tuple) or (len(o[0]) == 1 and math.isnan(o[0][0])):
                        w = float("nan")
                    else:
                        w = sum(sum(1 for x in o[0] if inside(x, iv)) / len(o[0]) for iv in ivs) / len(ivs)
                    got = float(rows[ai][ndesc + f]) if ai < len(rows) else float("nan")
                    if not (common.close(got, sig(w, 6), 1e-9) or common.close(got, w, 1e-5)):
                        bad = (ai, f, got, w)
                        break
                if bad:
                    break
            distinct.add((len(names), AXNAMES[ax], "baserate-avg", bt, len(thr)))
            if bad:
                out.violation("cell:threshold-average", "verif %s: row %d input %d reports %r; the base rate averaged over the %d intervals is %r"
                              % (" ".join(os.path.basename(a) for a in argv[1:]), bad[0], bad[1], bad[2], len(ivs), bad[3]), {"argv": argv})
        # thresholds: rows in the order given, labelled by the threshold
        ds = datagen.gen_dataset(rng, options=False)
        fn = os.path.join(tmp, "thr.txt")
        write_text(fn, dedupe(ds["inputs"][0]))
        for thr, bt in (("2,0,1", "above"), ("0,1,2.5", "below="), ("0,1,2,5", "within"), ("0,1,2,5", "=within=")):
            for typ in ("csv", "text"):
                r = run_cli(["verif", fn, "-m", "ets", "-r", thr, "-b", bt, "-x", "threshold", "-type", typ])
                nf += 1
                if r[0] != "ok":
                    out.violation("output-%s" % r[0], "-m ets -r %s -type %s: %s" % (thr, typ, r[1][:200]), {"thresholds": thr, "type": typ})
                    continue
                header, rows = parse_csv(r[1]) if typ == "csv" else parse_text(r[1])
                given = [float(x) for x in thr.split(",")]
                if "within" in bt:
                    given = given[:-1]          # one row per pair of consecutive thresholds, labelled by the lower one
                if [float(row[0]) for row in rows] != given:
                    out.violation("threshold-rows", "threshold rows %r are not the thresholds %s as given" % ([row[0] for row in rows], thr), {"thresholds": thr, "type": typ})
        # ---- header names against the columns they head: -leg together with a climatology; obsfcst with several quantiles and files ----
        def wq(name, shift):
            pth = os.path.join(tmp, name)
            rows_ = {}
            with open(pth, "w") as f_:
                f_.write("unixtime leadtime location obs fcst q0.1 q0.9\n")
                for t_ in range(3):
                    for l_ in (0, 6):
                        o_, c_ = rng.randint(0, 16) / 2.0, rng.randint(0, 16) / 2.0 + shift
                        rows_.setdefault(float(l_), []).append((o_, c_, c_ - 1 - shift, c_ + 2 + shift))
                        f_.write("%d %d 1 %g %g %g %g\n" % (86400 * t_, l_, o_, c_, c_ - 1 - shift, c_ + 2 + shift))
            return pth, rows_
        fa_, ra_ = wq("qa.txt", 0.0)
        fb_, rb_ = wq("qb.txt", 5.0)
        fc_, rc_ = wq("qc.txt", 0.0)
        mean_ = lambda rows_, l_, i_: sum(r_[i_] for r_ in rows_[l_]) / len(rows_[l_])
        # (c) the leading fields identify the slice also for station ids and coordinates with more than six digits
        fbig = os.path.join(tmp, "big.txt")
        with open(fbig, "w") as f_:
            f_.write("unixtime leadtime location lat lon altitude obs fcst\n")
            for i_, la_, lo_, el_ in ((1234567, 59.942312, 10.720011, 94.5), (1234568, -33.5, 151.25, 1234567.5)):
                for l_ in (0, 6):
                    f_.write("1325376000 %d %d %r %r %r %g %g\n" % (l_, i_, la_, lo_, el_, rng.randint(0, 8), rng.randint(0, 8)))
        for typ in ("csv", "text"):
            r = run_cli(["verif", fbig, "-m", "mae", "-x", "location", "-type", typ])
            nf += 1
            if r[0] != "ok":
                out.violation("output-%s" % r[0], "-x location -type %s on 7-digit station ids: %s" % (typ, r[1][:200]), {"file": open(fbig).read()})
                continue
            header, rows = parse_csv(r[1]) if typ == "csv" else parse_text(r[1])
            try:
                lead = [[float(x_) for x_ in row[:4]] for row in rows]
            except ValueError:
                lead = None
            if lead != [[1234567.0, 59.942312, 10.720011, 94.5], [1234568.0, -33.5, 151.25, 1234567.5]]:
                out.violation("descriptor:digits", "verif big.txt -m mae -x location -type %s labels the rows %r; the stations are 1234567 (59.942312, 10.720011, 94.5) and 1234568 (-33.5, 151.25, 1234567.5)"
                              % (typ, [row[:4] for row in rows]), {"file": open(fbig).read(), "type": typ})
        for typ in ("csv", "text"):
            # (a) -leg with -c / -C: one title per verified file, each over its own column
            for copt in ("-c", "-C"):
                argv = ["verif", fa_, fb_, copt, fc_, "-leg", "First,Second", "-m", "fcst", "-x", "leadtime", "-type", typ]
                r = run_cli(argv)
                nf += 1
                if r[0] != "ok":
                    out.violation("legend-climatology:%s" % r[0], "verif qa.txt qb.txt %s qc.txt -leg First,Second -m fcst -type %s ends with %s %s" % (copt, typ, r[0], r[1][:150]), {"argv": argv})
                    continue
                header, rows = parse_csv(r[1]) if typ == "csv" else parse_text(r[1])
                names_ = [h_.strip() for h_ in header[1:]]
                if names_ != ["First", "Second"] or any(len(row) != 3 for row in rows):
                    out.violation("legend-climatology", "verif qa.txt qb.txt %s qc.txt -leg First,Second -m fcst -type %s: header %r over rows of %r columns; expected the two titles over two score columns"
                                  % (copt, typ, header, sorted({len(row) for row in rows})), {"argv": argv})
            # (a2) two columns that carry the same title (-leg Model,Model; or the same file name in two directories): each column still
            #      holds ITS file's numbers
            argv = ["verif", fa_, fb_, "-leg", "Model,Model", "-m", "fcst", "-x", "leadtime", "-type", typ]
            r = run_cli(argv)
            nf += 1
            if r[0] == "ok":
                header, rows = parse_csv(r[1]) if typ == "csv" else parse_text(r[1])
                for row in rows:
                    l_ = float(row[0])
                    w1_, w2_ = mean_(ra_, l_, 1), mean_(rb_, l_, 1)
                    tol_ = (1e-4 if typ == "csv" else 5e-3)
                    if len(row) != 3 or abs(float(row[1]) - w1_) > tol_ * max(1.0, abs(w1_)) or abs(float(row[2]) - w2_) > tol_ * max(1.0, abs(w2_)):
                        out.violation("same-title-columns", "verif qa.txt qb.txt -leg Model,Model -m fcst -type %s: the row of lead time %g reads %r; the two files' mean forecasts there are %r and %r"
                                      % (typ, l_, row, w1_, w2_), {"argv": argv, "qa.txt": open(fa_).read(), "qb.txt": open(fb_).read()})
                        break
            else:
                out.violation("same-title-columns:%s" % r[0], "verif qa.txt qb.txt -leg Model,Model -m fcst -type %s ends with %s %s" % (typ, r[0], r[1][:150]), {"argv": argv})
            # (b) obsfcst with two quantiles and two files: every named column holds that file's mean of that quantity
            argv = ["verif", fa_, fb_, "-m", "obsfcst", "-q", "0.1,0.9", "-x", "leadtime", "-type", typ]
            r = run_cli(argv)
            nf += 1
            if r[0] != "ok":
                out.violation("obsfcst-table:%s" % r[0], "verif qa.txt qb.txt -m obsfcst -q 0.1,0.9 -type %s ends with %s %s" % (typ, r[0], r[1][:150]), {"argv": argv})
                continue
            header, rows = parse_csv(r[1]) if typ == "csv" else parse_text(r[1])
            names_ = [h_.strip() for h_ in header]
            want_cols = {"obs": (ra_, 0), "qa.txt": (ra_, 1), "qb.txt": (rb_, 1), "qa.txt 10%": (ra_, 2), "qa.txt 90%": (ra_, 3), "qb.txt 10%": (rb_, 2), "qb.txt 90%": (rb_, 3)}
            if sorted(names_[1:]) != sorted(want_cols):
                out.violation("obsfcst-table-header", "verif qa.txt qb.txt -m obsfcst -q 0.1,0.9 -type %s: header %r, expected the columns %r" % (typ, names_, sorted(want_cols)), {"argv": argv})
                continue
            for row in rows:
                l_ = float(row[0])
                for ci_, nm_ in enumerate(names_[1:], start=1):
                    rows_, i_ = want_cols[nm_]
                    w_ = mean_(rows_, l_, i_)
                    if abs(float(row[ci_]) - w_) > (1e-4 if typ == "csv" else 5e-3) * max(1.0, abs(w_)):
                        out.violation("obsfcst-table-column", "verif qa.txt qb.txt -m obsfcst -q 0.1,0.9 -type %s: the column headed %r holds %r at lead time %g; that quantity's mean there is %r"
                                      % (typ, nm_, float(row[ci_]), l_, w_), {"argv": argv, "qa.txt": open(fa_).read(), "qb.txt": open(fb_).read()})
                        break
                else:
                    continue
                break
    finally:
        shutil.rmtree(tmp, ignore_errors=True)
    disagreements = []
    try:
        got = common.coq_eval_float_lists(datagen.PREAMBLE.replace("Model.DataQ.", "Model.DataQ Model.Table."), exprs, "c12_%d" % seed,
                                          chunk=10, float_scope=False, timeout=900)
        for g, e, dsc in zip(got, expected, descr):
            dg = dsc["digits"]
            if len(g) != len(e) or not all(common.close(b, sig(a, dg), 1e-9) or common.close(a, b, 10 ** (-dg + 1)) for a, b in zip(g, e)):
                disagreements.append({"case": dsc, "model": g[:12], "implementation": e[:12]})
    except RuntimeError as ex:
        out.broken_obligation("tie:Model/Table.v", str(ex)[-1500:])
    if disagreements:
        out.broken_obligation("tie:Model/Table.v<->text/csv output", "%d of %d tables differ; first %r" % (len(disagreements), len(exprs), disagreements[0]))
    return {
        "evaluations": len(exprs) + nf,
        "distinct_nontrivial": len(distinct),
        "rule": "generated text files (1-4 inputs) x 13 axes x {mae,bias} x {csv,text} x -acc/-leg/-f; tables parsed back; distinct = "
                "(inputs, axis, metric, acc, type)",
        "samples": samples or [{"note": "none"}],
        "programs": len(exprs), "disagreements_checked": len(exprs), "tie_disagreements": len(disagreements),
        "falsifier_evaluations": nf, "traces_validated_against_impl": len(exprs),
    }
